#!/bin/bash
# Confirms a change seeded by a sub-agent in its scratch worktree /tmp/seed-<ID>:
#  (a) with out/v<N>.patch the whole existing suite passes, (b) the demonstration test fails with
#  the patch, (c) it passes without. Prints one summary line. Nothing in /repo or /verif is touched.
#   tools/confirm_seed.sh <ID> <N>
set -u
ID="$1"; V="$2"; D=/tmp/seed-$ID
cd "$D" || exit 2
export CARGO_TARGET_DIR=$D/target CARGO_NET_OFFLINE=true
clean() { git checkout -q -- . ; git clean -fdq -e target -e out -e PROPERTY.txt -e TASK.md; }
clean
git apply out/v$V.patch || { echo "SEED $ID v$V => patch-does-not-apply"; exit 2; }
cargo test --offline --no-fail-fast -j 8 >out/confirm-v$V.suite.log 2>&1
passed=$(grep -E '^test result' out/confirm-v$V.suite.log | sed -E 's/.* ([0-9]+) passed.*/\1/' | paste -sd+ | bc)
failed=$(grep -E '^test result' out/confirm-v$V.suite.log | sed -E 's/.* ([0-9]+) failed.*/\1/' | paste -sd+ | bc)
if [ ! -f out/v$V.demo.patch ]; then echo "SEED $ID v$V => suite passed=$passed failed=$failed; NO demo patch"; clean; exit 0; fi
git apply out/v$V.demo.patch || { echo "SEED $ID v$V => demo-does-not-apply (suite passed=$passed failed=$failed)"; clean; exit 2; }
names=$(python3 - out/v$V.demo.patch <<'PY'
import re,sys
lines=open(sys.argv[1]).read().splitlines()
out=[]
for i,l in enumerate(lines):
    if re.match(r'^\+\s*#\[(tokio::)?test', l):
        for m in lines[i+1:i+6]:
            g=re.match(r'^\+\s*(?:pub )?(?:async )?fn (\w+)', m)
            if g: out.append(g.group(1)); break
print(' '.join(out))
PY
)
with=""; without=""
for n in $names; do
  cargo test --offline -j 8 ${CONFIRM_FEATURES:-} "$n" >out/confirm-v$V.demo-with.$n.log 2>&1
  if grep -q "test result: FAILED" out/confirm-v$V.demo-with.$n.log; then with="$with $n:FAILS"; elif grep -qE "test result: ok\. [1-9]" out/confirm-v$V.demo-with.$n.log; then with="$with $n:passes"; else with="$with $n:??"; fi
done
clean
git apply out/v$V.demo.patch
for n in $names; do
  cargo test --offline -j 8 ${CONFIRM_FEATURES:-} "$n" >out/confirm-v$V.demo-without.$n.log 2>&1
  if grep -q "test result: FAILED" out/confirm-v$V.demo-without.$n.log; then without="$without $n:FAILS"; elif grep -qE "test result: ok\. [1-9]" out/confirm-v$V.demo-without.$n.log; then without="$without $n:passes"; else without="$without $n:??"; fi
done
clean
echo "SEED $ID v$V => suite passed=$passed failed=$failed | demo with patch:$with | demo without patch:$without"
