#!/usr/bin/env python3
"""Generates /verif/MANIFEST.json from the table below (kept in one place so the
manifest stays valid and current while checks are being added)."""
import json, os, subprocess
HERE = os.path.dirname(os.path.dirname(os.path.abspath(__file__)))

def hook_commits():
    try:
        out = subprocess.check_output(["git", "-C", "/repo", "log", "--format=%H %s"], text=True)
        return [l.split()[0] for l in out.splitlines() if "verif hook" in l]
    except Exception:
        return []

BROKER_NOTE = "Operations and views go through MemBrokerService (the object behind every HTTP handler), not through HTTP/warp. std HashMap iteration order inside undermoon is made reproducible per case (the harness seeds each case thread's RandomState; see DESIGN.md 2.5). Exploration: absence of counterexamples in the explored histories, no proof."
CHECKS = {
 "C01": dict(engine="brokersim", category="exploration", design="DESIGN.md §3 C01",
   technique="property-based testing (proptest): invariant over generated broker operation histories, evaluated after every step",
   text="Generated histories (vec(op)+interpreter, operands picked from the current state) of every admin operation over generated host layouts, migration limits 0..3 and ordered mode; after every step the served cluster view and every per-proxy view are decoded from JSON and checked against an independent 16384-entry owner array, the migrating/importing twin rule and the projection rule.",
   note=BROKER_NOTE),
 "C04": dict(engine="brokersim", category="exploration", design="DESIGN.md §3 C04",
   technique="property-based testing (proptest): history invariant (epoch monotone, strictly increasing on content change) over generated operation histories",
   text="Same generated histories; after every operation each registered address' served view is compared with the last view ever served for it: epoch never decreases, strictly increases when anything else differs; global epoch monotone.",
   note=BROKER_NOTE),
 "C06": dict(engine="brokersim", category="exploration", design="DESIGN.md §3 C06",
   technique="property-based testing (proptest): model-based oracle (expected ownership transfer computed from the pre-state) over generated histories with failovers injected at every point",
   text="Failover of an arbitrary registered proxy is drawn at every point of generated histories (during migrations, after earlier failovers/replacements/balance, repeated, with and without spares, ordered mode). Oracle: exact ownership transfer to the replica peers, structure of master/replica pairs, migration epoch strictly newer whenever a migration's addresses changed, allocations only from the free healthy pool.",
   note=BROKER_NOTE + " The strict clauses are only demanded when the chunk partner is healthy, as the property states."),
 "C10": dict(engine="brokersim", category="exploration", design="DESIGN.md §3 C10",
   technique="property-based testing (proptest): generated scaling chains with generated commit orders and interleaved failovers; validity predicate at every completion, refusal/no-change oracle while migrating",
   text="Scaling chains (1..4 resize requests up and down, sizes chosen from the state, commits in generated order, interleaved failovers/balance/refused requests/stale commits, migration limits 0..3) plus general histories incl. the auto-scale API. Oracle per step (refused while migrating and nothing changed, released chunks were empty, a pending migration is always served and committable) and per completion (16384 stable slots, balance <=1, trailing empty chunks exactly as requested, cluster info).",
   note=BROKER_NOTE + " Scale-out through the auto API is exercised up to its PROXY_NOT_SYNC outcome."),
 "C12": dict(engine="brokersim", category="exploration", design="DESIGN.md §3 C12",
   technique="property-based testing (proptest): invariants recomputed from the /metadata snapshot after every step of generated histories over skewed host layouts; unchanged-on-refusal oracle",
   text="Skewed/odd host layouts, competing clusters, removals, failure reports, failovers, re-registrations. After every step: membership vs free pool complement, chunk records, broker self-check, panics caught; refused requests leave the snapshot unchanged (documented exceptions modelled); created chunks span two hosts; replacement not on the partner's host when a third host has a free healthy proxy.",
   note=BROKER_NOTE + " The replacement clause is only demanded when a host other than both the partner's and the failed proxy's own host had a free healthy proxy."),
 "C13": dict(engine="brokersim", category="exploration", design="DESIGN.md §3 C13",
   technique="property-based testing (proptest): generated crash point x snapshot point x proxy-epoch distribution; restart + epoch recovery; epoch-dominance oracle plus C01/C04 oracles on the continued history",
   text="For generated histories: crash after any prefix, restart of a new MemBrokerService from the snapshot of any earlier prefix, proxies holding any epoch ever served for them, epoch recovery via hook H2 (bulk) and via the production recover_epoch over loopback TCP responders (some unreachable). Every view served afterwards must carry an epoch above every asked proxy's epoch; partition and epoch versioning must hold on the continued history.",
   note=BROKER_NOTE + " The system-level clause (proxies adopt the recovered view after sync rounds) belongs to the proxy world checks."),
 "C18": dict(engine="brokersim", category="exploration", design="DESIGN.md §3 C18",
   technique="property-based testing (proptest): reference model of report ages vs the real broker over generated report/age/query/registration histories",
   text="Histories of reports (5 reporters, known/unknown addresses), ageing (timestamps rewritten through snapshot->restore), queries, registrations, re-registrations, removals, failovers for quorum 1..4 and ttl 5/60/3600 s. Listed => registered and >= quorum distinct reporters with a fresh report; duplicates count once; nothing older than ttl survives a query; re-registration clears reports and failed mark.",
   note=BROKER_NOTE + " Wall-clock seconds enter through chrono::Utc::now in the broker; ages within 2 s of the ttl are excluded by construction."),
}

NOT_YET = {}

def main():
    props = [json.loads(l) for l in open(os.path.join(HERE, "properties.jsonl"))]
    checks = []
    na = []
    for p in props:
        pid = p["id"]
        if pid in CHECKS:
            c = CHECKS[pid]
            checks.append({
                "property_id": pid,
                "quick_cmd": f"./check {pid} --tier quick",
                "thorough_cmd": f"./check {pid} --tier thorough",
                "evidence_file": f"evidence/{pid}.json",
                "replay_cmd_template": f"./check {pid} --replay {{path}}",
                "engine": c["engine"],
                "level_claimed": {"category": c["category"], "text": c["text"], "design_ref": c["design"]},
                "level_note": c["note"],
                "technique": c["technique"],
            })
        else:
            na.append({"property_id": pid, "reason": NOT_YET.get(pid, "check not implemented yet (machinery under construction; the technique applies, see DESIGN.md §3)")})
    m = {
        "version": 1,
        "setup_cmd": "./check --setup",
        "hooks": {
            "guard": "cargo feature `verif` of the undermoon crate (off by default)",
            "enable": "the harness crate /verif/harness depends on undermoon = { path = \"/repo\", features = [\"verif\"] }; every ./check run does `cargo build --offline` of the harness, which rebuilds /repo's working tree with the feature on",
            "baseline_off_cmd": "cd /repo && cargo nextest run --workspace --no-fail-fast --tool-config-file pb:/w/lib/nextest.toml --profile pb --test-threads 8 --offline || cargo test --workspace --no-fail-fast --offline",
            "source_commits": hook_commits(),
            "add_only": True,
        },
        "engines": [
            {"name": "brokersim", "path": "harness/src/engines/brokersim.rs", "serves_properties": ["C01","C04","C06","C10","C12","C13","C18"], "kind_free_text": "proptest-generated operation histories against the real MemBrokerService, oracles over the served JSON views after every step"},
        ],
        "checks": checks,
        "not_applicable": na,
        "notes": "All checks: ./check <ID> --tier quick|thorough; exit 0 held / 1 VIOLATION / 2 inconclusive. Seeds via VERIF_SEED. Known findings in known_findings.json.",
    }
    json.dump(m, open(os.path.join(HERE, "MANIFEST.json"), "w"), indent=1)
    print("MANIFEST.json written:", len(checks), "checks,", len(na), "not claimed")

if __name__ == "__main__":
    main()
