#!/usr/bin/env python3
"""Generates /verif/MANIFEST.json from the table below (kept in one place so the
manifest stays valid and current while checks are being added)."""
import json, os, subprocess
HERE = os.path.dirname(os.path.dirname(os.path.abspath(__file__)))

def hook_commits():
    try:
        out = subprocess.check_output(["git", "-C", "/repo", "log", "--format=%H %s"], text=True)
        return [l.split()[0] for l in out.splitlines() if "verif hook" in l]
    except Exception:
        return []

CHECKS = {
 "C01": dict(engine="brokersim", category="exploration", design="§3 C01",
   technique="property-based testing: model-free invariant (partition/twin/projection predicate) over generated broker operation histories, evaluated after every step",
   text="Generated histories (proptest, vec(op)+interpreter) of every admin operation over generated host layouts, migration limits 0..3 and ordered mode; after every step the served cluster view and every per-proxy view are decoded from JSON and checked against an independent 16384-entry owner array, the migrating/importing twin rule and the projection rule. Exploration only: absence of counterexamples in the explored histories.",
   note="Views are read from MemBrokerService (object behind the HTTP handlers), not through HTTP/warp. HashMap iteration order inside undermoon is not controlled (allocation choices may differ between runs of the same case)."),
}

NOT_YET = {}

def main():
    props = [json.loads(l) for l in open(os.path.join(HERE, "properties.jsonl"))]
    checks = []
    na = []
    for p in props:
        pid = p["id"]
        if pid in CHECKS:
            c = CHECKS[pid]
            checks.append({
                "property_id": pid,
                "quick_cmd": f"./check {pid} --tier quick",
                "thorough_cmd": f"./check {pid} --tier thorough",
                "evidence_file": f"evidence/{pid}.json",
                "replay_cmd_template": f"./check {pid} --replay {{path}}",
                "engine": c["engine"],
                "level_claimed": {"category": c["category"], "text": c["text"], "design_ref": c["design"]},
                "level_note": c["note"],
                "technique": c["technique"],
            })
        else:
            na.append({"property_id": pid, "reason": NOT_YET.get(pid, "check not implemented yet (machinery under construction; the technique applies, see DESIGN.md §3)")})
    m = {
        "version": 1,
        "setup_cmd": "./check --setup",
        "hooks": {
            "guard": "cargo feature `verif` of the undermoon crate (off by default)",
            "enable": "the harness crate /verif/harness depends on undermoon = { path = \"/repo\", features = [\"verif\"] }; every ./check run does `cargo build --offline` of the harness, which rebuilds /repo's working tree with the feature on",
            "baseline_off_cmd": "cd /repo && cargo nextest run --workspace --no-fail-fast --tool-config-file pb:/w/lib/nextest.toml --profile pb --test-threads 8 --offline || cargo test --workspace --no-fail-fast --offline",
            "source_commits": hook_commits(),
            "add_only": True,
        },
        "engines": [
            {"name": "brokersim", "path": "harness/src/engines/brokersim.rs", "serves_properties": ["C01","C04","C06","C10","C12","C13","C18"], "kind_free_text": "proptest-generated operation histories against the real MemBrokerService, oracles over the served JSON views after every step"},
        ],
        "checks": checks,
        "not_applicable": na,
        "notes": "All checks: ./check <ID> --tier quick|thorough; exit 0 held / 1 VIOLATION / 2 inconclusive. Seeds via VERIF_SEED. Known findings in known_findings.json.",
    }
    json.dump(m, open(os.path.join(HERE, "MANIFEST.json"), "w"), indent=1)
    print("MANIFEST.json written:", len(checks), "checks,", len(na), "not claimed")

if __name__ == "__main__":
    main()
