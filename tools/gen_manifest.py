#!/usr/bin/env python3
"""Generates /verif/MANIFEST.json from the table below (kept in one place so the
manifest stays valid and current while checks are being added)."""
import json, os, subprocess
HERE = os.path.dirname(os.path.dirname(os.path.abspath(__file__)))

def hook_commits():
    try:
        out = subprocess.check_output(["git", "-C", "/repo", "log", "--format=%H %s"], text=True)
        return [l.split()[0] for l in out.splitlines() if "verif hook" in l]
    except Exception:
        return []

BROKER_NOTE = "Operations and views go through MemBrokerService (the object behind every HTTP handler), not through HTTP/warp. std HashMap iteration order inside undermoon is made reproducible per case (the harness seeds each case thread's RandomState; see DESIGN.md 2.5). Exploration: absence of counterexamples in the explored histories, no proof."
CHECKS = {
 "C01": dict(engine="brokersim", category="exploration", design="DESIGN.md §3 C01",
   technique="property-based testing (proptest): invariant over generated broker operation histories, evaluated after every step",
   text="Generated histories (vec(op)+interpreter, operands picked from the current state) of every admin operation over generated host layouts, migration limits 0..3 and ordered mode; after every step the served cluster view and every per-proxy view are decoded from JSON and checked against an independent 16384-entry owner array, the migrating/importing twin rule and the projection rule. Plus a bounded-exhaustive sub-check: every sequence of 3 (quick) / 4 (thorough) operations over a reduced 15-operation alphabet on a fixed 8-proxy layout, migration_limit 0 and 1.",
   note=BROKER_NOTE),
 "C04": dict(engine="brokersim", category="exploration", design="DESIGN.md §3 C04",
   technique="property-based testing (proptest): history invariant (epoch monotone, strictly increasing on content change) over generated operation histories",
   text="Same generated histories; after every operation each registered address' served view is compared with the last view ever served for it: epoch never decreases, strictly increases when anything else differs; global epoch monotone. Plus the bounded-exhaustive small-scope histories (all sequences of 3/4 operations over a 15-operation alphabet).",
   note=BROKER_NOTE),
 "C06": dict(engine="brokersim", category="exploration", design="DESIGN.md §3 C06",
   technique="property-based testing (proptest): model-based oracle (expected ownership transfer computed from the pre-state) over generated histories with failovers injected at every point",
   text="Failover of an arbitrary registered proxy is drawn at every point of generated histories (during migrations, after earlier failovers/replacements/balance, repeated, with and without spares, ordered mode). Oracle: exact ownership transfer to the replica peers, structure of master/replica pairs, migration epoch strictly newer whenever a migration's addresses changed, allocations only from the free healthy pool. Plus the bounded-exhaustive small-scope histories (all sequences of 3/4 operations over a 15-operation alphabet, three of them failovers).",
   note=BROKER_NOTE + " The strict clauses are only demanded when the chunk partner is healthy, as the property states."),
 "C10": dict(engine="brokersim", category="exploration", design="DESIGN.md §3 C10",
   technique="property-based testing (proptest): generated scaling chains with generated commit orders and interleaved failovers; validity predicate at every completion, refusal/no-change oracle while migrating",
   text="Scaling chains (1..4 resize requests up and down, sizes chosen from the state, commits in generated order, interleaved failovers/balance/refused requests/stale commits, migration limits 0..3) plus general histories incl. the auto-scale API. Oracle per step (refused while migrating and nothing changed, released chunks were empty, a pending migration is always served and committable) and per completion (16384 stable slots, balance <=1, trailing empty chunks exactly as requested, cluster info). Plus the bounded-exhaustive small-scope histories (all sequences of 3/4 operations over a 15-operation alphabet).",
   note=BROKER_NOTE + " Scale-out through the auto API is exercised up to its PROXY_NOT_SYNC outcome."),
 "C12": dict(engine="brokersim", category="exploration", design="DESIGN.md §3 C12",
   technique="property-based testing (proptest): invariants recomputed from the /metadata snapshot after every step of generated histories over skewed host layouts; unchanged-on-refusal oracle",
   text="Skewed/odd host layouts, competing clusters, removals, failure reports, failovers, re-registrations. After every step: membership vs free pool complement, chunk records, broker self-check, panics caught; refused requests leave the snapshot unchanged (documented exceptions modelled); created chunks span two hosts; replacement not on the partner's host when a third host has a free healthy proxy. Plus the bounded-exhaustive small-scope histories (all sequences of 3/4 operations over a 15-operation alphabet).",
   note=BROKER_NOTE + " The replacement clause is only demanded when a host other than both the partner's and the failed proxy's own host had a free healthy proxy."),
 "C13": dict(engine="brokersim", category="exploration", design="DESIGN.md §3 C13",
   technique="property-based testing (proptest): generated crash point x snapshot point x proxy-epoch distribution; restart + epoch recovery; epoch-dominance oracle plus C01/C04 oracles on the continued history",
   text="For generated histories: crash after any prefix, restart of a new MemBrokerService from the snapshot of any earlier prefix, proxies holding any epoch ever served for them, epoch recovery via hook H2 (bulk) and via the production recover_epoch over loopback TCP responders (some unreachable). Every view served afterwards must carry an epoch above every asked proxy's epoch; partition and epoch versioning must hold on the continued history.",
   note=BROKER_NOTE + " The system-level clause (proxies adopt the recovered view after sync rounds) belongs to the proxy world checks."),
 "C18": dict(engine="brokersim", category="exploration", design="DESIGN.md §3 C18",
   technique="property-based testing (proptest): reference model of report ages vs the real broker over generated report/age/query/registration histories",
   text="Histories of reports (5 reporters, known/unknown addresses), ageing (timestamps rewritten through snapshot->restore), queries, registrations, re-registrations, removals, failovers for quorum 1..4 and ttl 5/60/3600 s. Listed => registered and >= quorum distinct reporters with a fresh report; duplicates count once; nothing older than ttl survives a query; re-registration clears reports and failed mark.",
   note=BROKER_NOTE + " Wall-clock seconds enter through chrono::Utc::now in the broker; ages within 2 s of the ttl are excluded by construction."),
 "C05": dict(engine="proxysim", category="exploration", design="DESIGN.md §3 C05",
   technique="property-based testing (proptest): sequential reference model over generated SETCLUSTER/SETREPL message sequences; concurrent deliveries checked against a linearizability-style explanation rule",
   text="Sequences of cluster/replication metadata messages with epochs from a small pool (equal, lower, higher), FORCE/COMPRESS, 4 distinguishable contents, foreign-host and malformed messages are delivered to a real proxy; after every message the reply, UMCTL GETEPOCH, the routing of 8 probe slots and UMCTL INFOREPL are compared with a sequential model. A second sub-check delivers from 2..4 tasks on a multi-thread runtime and demands an explanation of every accept/refuse by real-time order.",
   note="World = real SharedForwardHandler + stateful Redis stand-ins + fake network (ConnFactory/RedisClientFactory seams) on a paused-clock runtime. The concurrent sub-check is free-running (OS scheduling), interleavings are not enumerated."),
 "C09": dict(engine="proxysim+codec", category="exploration", design="DESIGN.md §3 C09",
   technique="property-based testing (proptest): differential against an independent CRC16-XMODEM/hash-tag reference; routing oracle over generated slot layouts and command shapes with stand-in execution logs",
   text="(pure) brace-biased/binary/empty/4 KiB keys: generate_slot vs a bitwise reference. (route) a real proxy with three Redis stand-ins; generated cut points incl. single-slot segments and gaps, several ranges per node, delivered through SETCLUSTER; single-key, EVAL/EVALSHA, and multi-key commands with same/different slots; keys hashing to boundaries +-1. Executed on exactly the owning stand-in, or exact MOVED, or error; cross-slot multi-key refused and nothing executed.",
   note="Layouts are non-overlapping (overlap only arises from migration twins); active redirection is off here."),
 "C15": dict(engine="codec", category="exploration", design="DESIGN.md §3 C15",
   technique="property-based testing (proptest): round-trip and split-invariance oracles over generated RESP pipelines; differential against a strict RESP2 reference recognizer over mutated encodings and raw bytes",
   text="Recursive RESP values (depth<=5, bulk up to 70000 B with CR/LF, nil forms) in pipelines of 1..5, encoded by the real encoder (checked against a reference encoder) and decoded by every decoder (RespVec, RespPacket, Box<RespPacket>, OptionalMulti single/multi hints) in one piece, under generated k-way splits and under every single split point for streams <= 512 B; consumed byte counts, untouched buffers on need-more, byte-identical pass-through. Differential: targeted mutations of valid encodings and raw bytes vs a strict recognizer.",
   note="Opaque content (integer digits, negative lengths other than -1, '+N', CR inside a line) is unspecified for the reference. Array counts > 2^20 are left to C16."),
 "C17": dict(engine="codec+brokersim", category="exploration", design="DESIGN.md §3 C17",
   technique="property-based testing (proptest): round-trip oracles, differential against reference decoders written from docs/meta_command.md, exhaustive single-token prefix/deletion/corruption per generated message, end-to-end INFOMGR->commit journey on broker states",
   text="Arbitrary cluster-metadata messages (plain and compressed), SETREPL messages, migration task descriptors and switch arguments round-trip through the real parsers; every proper token prefix, every single-token deletion and 11 corruptions of every token (plus blob truncations/flips) are parsed by the real parser and by a reference decoder: real must never return a different value, and must reject what the reference rejects. Metadata of reachable broker states goes through the real coordinator sender (hook H1) and the real proxy parser; every pending migration reported as finished is parsed by the real coordinator checker and committed on the issuing broker exactly once.",
   note="Values are compared modulo nodes without slot ranges (not representable in the plain encoding). One known finding: an invalid/truncated CONFIG section is ignored and the default config installed (deliberate in the source)."),
 "C20": dict(engine="proxysim", category="exploration", design="DESIGN.md §3 C20",
   technique="property-based testing (proptest): model-based oracle (uncompressed reference semantics = the run with compression disabled) plus stand-in log inspection over generated write/read programs",
   text="Two real proxies, compression strategy from SETCLUSTER CONFIG, active redirection on/off with max_redirections 2..4 (so that a forwarded write also arrives with an exhausted redirection budget); programs of SET (with EX/PX/NX/XX/KEEPTTL), SETEX, PSETEX, SETNX, GETSET, MSET/MSETNX (1..4 pairs), GET, MGET, DEL and restricted commands entering through either proxy; values empty..1 MiB, incompressible, zstd-looking, pre-compressed. Every reply equals the model's; in the stand-in log non-value arguments are identical and value arguments zstd-decode to the request's value; restricted commands are refused and never reach Redis in set_get_only.",
   note="Multi-key commands use keys of one slot. Results of restricted commands in allow_all mode are not judged."),
 "C03": dict(engine="proxysim", category="exploration", design="DESIGN.md §3 C03",
   technique="property-based testing (proptest): generated client programs x generated message schedules against the real migration; per-key linearizability oracle (Wing-Gong search vs a sequential register-with-delete model) and admissible-final-state oracle",
   text="A world with real source/destination/bystander proxies and stateful Redis stand-ins runs the real migration (handshake, scan, pull, push, final switch, commit) while 1..4 generated clients operate on keys inside and outside the range through generated start proxies; every message is delayed by a generated schedule on the virtual clock. Each key's client-visible history must be linearizable; after commit every range key lives only on the destination with a value admissible after the history, others only on the source, untouched keys unchanged.",
   note="Interleavings are explored at message granularity on a single-thread runtime; races between two tasks of one proxy between awaits, and multi-core memory effects, are out of reach. Handshake latency is kept below max_blocking_time (the force-ahead fallback is a fault path). Error replies count as outcome-unknown."),
 "C19": dict(engine="codec+proxysim", category="exploration", design="DESIGN.md §3 C19",
   technique="property-based testing (proptest): function-level oracle over all PTTL reply classes; log-based oracle (every RESTORE justified by an earlier PTTL read) over generated migrations with forced transfer paths and sub-millisecond TTLs on a virtual clock",
   text="(function) pttl_to_restore_expire_time over -2, -1, 0, 1, small, 2^31+-1, 2^63-1, uniform, log-uniform magnitudes 10^0..10^18 ms and malformed replies. (paths) real migrations with keys whose remaining TTL is generated (persistent, <1 ms so PTTL reads 0, ms, s, hours..centuries log-uniform), forced through scan / pull / push. (worlds) random C03 worlds with expiring keys. Every RESTORE reaching the destination must be justified by an earlier PTTL reply p for that key: p=-1 -> 0; p>=0 -> 1<=ttl<=max(p,1), never 0; persistent stays persistent, expiring keeps an expiry.",
   note="The RESTORE ttl is compared with the PTTL value read, not with the original absolute expiry. Malformed PTTL replies are outside Redis' domain: no claim."),
 "C02": dict(engine="brokersim+proxysim", category="exploration", design="DESIGN.md §3 C02",
   technique="property-based testing (proptest): broker states from generated histories delivered through the real coordinator encoding to a world of real proxies frozen in generated migration phases; routing oracle computed from the broker's JSON view, execution observed in stand-in logs",
   text="For reachable broker states (stable, mid-migration, after failover/replacement, limited migration) every cluster member becomes a real proxy with two Redis stand-ins; metadata is sent by the real ProxyMetaRespSender (plain/compressed); the real migrations are frozen in (PreCheck,PreCheck), (Scanning,PreSwitch), (FinalSwitch,PreSwitch) or (SwitchCommitted,SwitchCommitted) by holding handshake/scan messages; in half of the cases the metadata is then refreshed once or twice while the migration is in flight (admin epoch bump, same content re-sent with a higher epoch through the real sender). Histories that end without a cluster are continued with a creation and a scale-out. From every proxy a SET is sent for every range boundary +-1 and generated slots; it must execute on exactly the node the broker designates (source before the handshake, destination after), within 1 (stable) / 3 (migrating) redirections, and no data command may appear on a foreign node.",
   note="All cluster members are alive and synced (the property's precondition). Slots are sampled (all boundaries +-1 plus generated ones), not all 16384 per state. The blocked interval during PRESWITCH is not probed. Migration time limits stay at their defaults (time-out fallbacks are fault paths)."),
 "C14": dict(engine="proxysim", category="exploration", design="DESIGN.md §3 C14",
   technique="property-based testing (proptest): independent parser of CLUSTER NODES/SLOTS over hand-built cluster maps with arbitrary migration-state maps, and over real proxies of reachable broker states frozen in generated migration phases; agreement oracle with routing probes",
   text="(maps) ClusterBackendMap with generated segments (stable local/peer, migrating out, importing, third-party migration, gaps), arbitrary state maps, both NODES versions: each covered slot exactly once in NODES and SLOTS at the same address, one myself line, stable slots advertised where a probe executes / is MOVED to, migrating slots at source iff PreCheck else destination, bystander either side once. (phases) the C02 worlds, including the in-flight metadata refreshes: NODES/SLOTS of every proxy (source, destination, bystander) in each frozen phase.",
   note="A bystander (no state for the range) may advertise either side; a proxy that holds no state yet for its own migration may advertise either side."),
 "C08": dict(engine="conn", category="fault_enumeration", design="DESIGN.md §3 C08",
   technique="property-based testing / fault injection (proptest): generated request pipelines against a scripted backend that fragments, coalesces, delays, stalls and cuts the reply byte stream at generated positions; identity oracle (a reply carries the id of the request it answers) and exactly-once/ordering oracle",
   text="(backend-node) the real BackendNode/handle_backend/ReplyCommitHandler with real CmdCtx tasks over the real RespCodec on an in-memory duplex stream; per connection a generated plan (refuse, latency, byte fragmentation, coalescing, stall beyond backend_timeout, cut after byte n / request m, then reconnect), batching disabled/fixed/dynamic: every request resolves exactly once in bounded virtual time, successes carry their own id, the backend sees a request at most retry-budget+1 times, reconnect storms are detected; replies of varying RESP shape (bulk, nested array with nil/integer, error, simple string, 9 KiB bulk) must arrive unaltered; back-pressure: the backend stops reading over a 16..2048-byte pipe while padded requests exceed the product's 8 KiB write buffer. (enumerated) fixed pipelines x EVERY cut position of the first connection's reply byte stream and every cut-after-request count x 3 batching strategies x 3 fragmentations x 2 coalescing factors x second connection {clean, refused once, cut again, cut on 5 consecutive connections}. (session) the full stack over loopback TCP: real handle_session -> ForwardHandler -> scripted backend with fragmented client writes and interleaved locally-answered commands: reply k answers request k; a quarter of the cases use a lazy reader (small socket buffers, 9 KiB replies, the client starts reading 150 ms after pipelining everything).",
   note="Cut positions are exhaustively enumerated for the fixed pipelines of the enumerated sub-check only; elsewhere fault positions are generated. The TCP layer runs in real time."),
 "C16": dict(engine="proxysim", category="exploration", design="DESIGN.md §3 C16",
   technique="fuzzing-style property-based testing (proptest) with process isolation: byte streams and structured commands with extreme arguments executed in child worker processes; oracles: process survival, panic log, counting-allocator memory bound, bounded completion time, liveness of a second connection",
   text="Inputs are run in child processes of the harness (an abort, stack overflow or refused giant allocation is an observation). Byte streams with hostile length prefixes, nesting to depth 200000, truncations and raw bytes; well-formed commands of every family the executor special-cases with arguments from {missing, empty, non-UTF-8, 0, -1, 2^62, 2^63-1, 2^64-1, 2^64, long digits, keywords, long strings}, before and after metadata is set, compression on/off. No death, no panic on any thread, peak memory <= 16 MiB + 4096 x bytes received, completion within 8 s wall (triple-confirmed) / 3600 virtual s, a second connection keeps being served. (tcp) the same input classes written in generated fragments on a real loopback TCP connection served by the real handle_session behind an accept loop, with the client reading normally / disconnecting without reading / half-closing: every complete request ahead of malformed data is answered or the connection closed within 6 s (three attempts), a second TCP connection is served meanwhile, both session tasks end after the clients are gone.",
   note="Sub-check inputs drives the session in-process through the real decoder, Session::handle_cmd/handle_slowlog and ForwardHandler; sub-check tcp adds the real handle_session over loopback TCP (the listener setup of server.rs is not in the loop). This is the only check where a wall-clock limit is part of the oracle. Build profile: debug assertions and overflow checks ON for undermoon."),
 "C11": dict(engine="sched", category="fault_enumeration", design="DESIGN.md §3 C11",
   technique="schedule exploration with a deterministic cooperative scheduler (generated schedules via proptest + bounded exhaustive enumeration of schedule prefixes) over the real blocking queue; invariant over the logically time-stamped event log",
   text="The real BlockingMap/TaskBlockingQueue/BlockingHandle run on real OS threads (1..3 senders, 1..2 controllers, a completer) of which exactly one is runnable at a time; context switches happen only at the scheduling points hook H3 places before every shared-memory access of proxy/blocking.rs and between the load and the compare-exchange of common/biatomic.rs. Generated byte-vector schedules plus every schedule prefix of length 7 (quick) / 9 (thorough) for 2 senders x 1 controller and of length 6 / 9 for 1 sender x 2 controllers. No command is handed to the source Redis while a controller has observed blocking_done and not yet lifted blocking; every command ends in exactly one outcome; at quiescence nothing is queued and no command is counted as running.",
   note="Sequentially consistent interleavings only (the atomics are SeqCst); crossbeam channel internals are trusted; an access the hooks miss is not pre-empted; the exhaustive part is exhaustive only up to the stated prefix length."),
 "C07": dict(engine="proxysim+brokersim", category="fault_enumeration", design="DESIGN.md §3 C07",
   technique="fault injection over generated scripts plus exhaustive single-fault / single-crash-point enumeration of a reference script, against a world built from the real coordinator components, real proxies and the real broker; safety invariants after every step and bounded-convergence oracle",
   text="Coordinator rounds are assembled from the real components (hook H1) exactly as CoordinatorService does, with the real in-memory broker behind the coordinator's broker traits and 6..12 real proxies on the fake network. Scripts mix admin operations, rounds of one or two coordinators (also concurrently), proxy restarts/kills and a fault plan addressed by call signature x occurrence (drop request, drop reply, duplicate, delivery delayed by 20 ms / 2 s of virtual time = reordered / stale delivery) or a coordinator crash at its n-th outgoing call. Every single fault (10 call kinds x occurrences x 5 types) and every crash point (step x call) of three reference scripts (scale-out with migration; proxy death detected by two coordinators, failover, replacement; scale-in under migration_limit 1) is enumerated; the thorough tier adds every pair of faults of the first script. No proxy epoch ever decreases except across its own restart; no migration is committed twice; after faults stop, clean cycles bring every reachable non-failed proxy to the broker's view (epoch, roles, routing) with no finished migration left; a lone fault-free migration round updates the destination before the source.",
   note="Liveness is checked as bounded convergence: only a stuck state (24 clean cycles, the last 6 identical) is a violation. The broker is reached in-process through the coordinator's broker traits (no HTTP). Fault positions in generated scripts are random; exhaustive only for the reference scripts."),
}

NOT_YET = {}

def main():
    props = [json.loads(l) for l in open(os.path.join(HERE, "properties.jsonl"))]
    checks = []
    na = []
    for p in props:
        pid = p["id"]
        if pid in CHECKS:
            c = CHECKS[pid]
            checks.append({
                "property_id": pid,
                "quick_cmd": f"./check {pid} --tier quick",
                "thorough_cmd": f"./check {pid} --tier thorough",
                "evidence_file": f"evidence/{pid}.json",
                "replay_cmd_template": f"./check {pid} --replay {{path}}",
                "engine": c["engine"],
                "level_claimed": {"category": c["category"], "text": c["text"], "design_ref": c["design"]},
                "level_note": c["note"],
                "technique": c["technique"],
            })
        else:
            na.append({"property_id": pid, "reason": NOT_YET.get(pid, "check not implemented yet (machinery under construction; the technique applies, see DESIGN.md §3)")})
    m = {
        "version": 1,
        "setup_cmd": "./check --setup",
        "hooks": {
            "guard": "cargo feature `verif` of the undermoon crate (off by default)",
            "enable": "the harness crate /verif/harness depends on undermoon = { path = \"/repo\", features = [\"verif\"] }; every ./check run does `cargo build --offline` of the harness, which rebuilds /repo's working tree with the feature on",
            "baseline_off_cmd": "cd /repo && cargo nextest run --workspace --no-fail-fast --tool-config-file pb:/w/lib/nextest.toml --profile pb --test-threads 8 --offline || cargo test --workspace --no-fail-fast --offline",
            "source_commits": hook_commits(),
            "add_only": True,
        },
        "engines": [
            {"name": "brokersim", "path": "harness/src/engines/brokersim.rs", "serves_properties": ["C01","C04","C06","C10","C12","C13","C18","C17"], "kind_free_text": "proptest-generated operation histories against the real MemBrokerService, oracles over the served JSON views after every step"},
            {"name": "codec", "path": "harness/src/engines/codec.rs", "serves_properties": ["C15","C17","C09","C19"], "kind_free_text": "pure functions: RESP value model, reference encoder, strict reference recognizer; reference decoders for control-plane messages"},
            {"name": "sched", "path": "harness/src/engines/sched.rs", "serves_properties": ["C11"], "kind_free_text": "deterministic cooperative scheduler: real OS threads, one runnable at a time, switches only at cfg(feature=verif) scheduling points (hook H3); schedules are generated byte vectors or enumerated prefixes"},
            {"name": "conn", "path": "harness/src/engines/conn.rs", "serves_properties": ["C08"], "kind_free_text": "scripted backend behind the ConnFactory seam: the real RESP codec over an in-memory duplex byte stream; fragmentation, coalescing, latency, stalls and cuts from a generated plan"},
            {"name": "proxysim", "path": "harness/src/engines/world.rs", "serves_properties": ["C05","C09","C20","C14","C02","C03","C19","C07"], "kind_free_text": "in-process world: real proxies (SharedForwardHandler), stateful Redis stand-ins and a fake network implementing ConnFactory/RedisClientFactory on a paused-clock single-thread runtime; message delays/holds/faults decided by the generated schedule"},
        ],
        "checks": checks,
        "not_applicable": na,
        "notes": "All checks: ./check <ID> --tier quick|thorough; exit 0 held / 1 VIOLATION / 2 inconclusive. Seeds via VERIF_SEED. Known findings in known_findings.json.",
    }
    json.dump(m, open(os.path.join(HERE, "MANIFEST.json"), "w"), indent=1)
    print("MANIFEST.json written:", len(checks), "checks,", len(na), "not claimed")

if __name__ == "__main__":
    main()
