#!/bin/bash
# Runs every hand-written mutant (mutants/<PROP>-*.diff) and every seeded change (seeded/<PROP>-vN/patch.diff)
# against the quick tier of its property's check, in a scratch worktree (tools/mutation_run.sh).
#   tools/mutation_sweep.sh [pattern]      results: one line per patch on stdout
set -u
cd "$(dirname "$0")/.."
PAT="${1:-}"
for f in mutants/*.diff seeded/*/patch.diff; do
  case "$f" in *"$PAT"*) ;; *) continue;; esac
  b=$(basename "$f"); [ "$b" = patch.diff ] && b=$(basename "$(dirname "$f")")
  prop=${b%%-*}
  printf '%s ' "$b"
  tools/mutation_run.sh "$f" "$prop" 2>&1 | grep -a "^MUTANT" | sed 's/^MUTANT [^ ]* //'
done
