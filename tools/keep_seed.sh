#!/bin/bash
# Copies a confirmed sub-agent change from its scratch worktree into /verif/seeded/<ID>-v<N>/
#   tools/keep_seed.sh <ID> <N> "<confirm line>"
set -u
ID="$1"; V="$2"; CONFIRM="${3:-}"
S=/tmp/seed-$ID/out; D=/verif/seeded/$ID-v$V
mkdir -p "$D"
cp "$S/v$V.patch" "$D/patch.diff"
[ -f "$S/v$V.demo.patch" ] && cp "$S/v$V.demo.patch" "$D/demo.patch"
[ -f "$S/v$V.demo.md" ] && cp "$S/v$V.demo.md" "$D/demo.md"
python3 - "$S/v$V.meta.json" "$D/meta.json" "$ID" "$V" "$CONFIRM" <<'PY'
import json,sys
src,dst,pid,v,confirm=sys.argv[1:6]
try: m=json.load(open(src))
except Exception: m={}
m.setdefault('property',pid); m['variant']=int(v)
m['origin']='fresh sub-agent given only the property text and a scratch worktree'
m['confirmed_by_main_session']=confirm
m.setdefault('caught_by',None)
json.dump(m,open(dst,'w'),indent=1)
PY
echo kept $D
