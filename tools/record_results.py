#!/usr/bin/env python3
"""Consolidates the output of tools/mutation_sweep.sh runs.

  tools/record_results.py <sweep-log> [<sweep-log> ...]

Every line `<name> <PROP> => caught (signature=...)|MISSED|...` is merged (later files win) into
  mutants/RESULTS.tsv and seeded/RESULTS.tsv (name, property, outcome, signature),
the `caught_by` field of seeded/<name>/meta.json is updated, and the two markdown tables of
DESIGN.md section 8.4 / 8.5 are printed on stdout.
"""
import json, os, re, sys
HERE = os.path.dirname(os.path.dirname(os.path.abspath(__file__)))

def load_tsv(p):
    d = {}
    if os.path.exists(p):
        for l in open(p):
            f = l.rstrip('\n').split('\t')
            if len(f) >= 4 and f[0] != 'name':
                d[f[0]] = f[1:4]
    return d

def save_tsv(p, d):
    with open(p, 'w') as f:
        f.write('name\tproperty\toutcome\tsignature\n')
        for k in sorted(d):
            f.write('\t'.join([k] + d[k]) + '\n')

def main():
    mut = load_tsv(os.path.join(HERE, 'mutants', 'RESULTS.tsv'))
    seed = load_tsv(os.path.join(HERE, 'seeded', 'RESULTS.tsv'))
    pat = re.compile(r'^(\S+) (C\d\d) => (\S+)(?: \((?:signature=)?([^)]*)\))?')
    for fn in sys.argv[1:]:
        for l in open(fn, errors='replace'):
            m = pat.match(l.strip())
            if not m:
                continue
            name, prop, outcome, sig = m.group(1), m.group(2), m.group(3), m.group(4) or ''
            if outcome in ('build-failed', 'patch-does-not-apply', 'inconclusive'):
                # never overwrite a decided outcome by an undecided one
                tgt = mut if name.endswith('.diff') else seed
                if name in tgt and tgt[name][1] in ('caught', 'MISSED'):
                    continue
            sig = sig.replace('/var/tmp/um-mut2/repo/', '').replace('/var/tmp/um-mut/repo/', '')
            (mut if name.endswith('.diff') else seed)[name] = [prop, outcome, sig]
    save_tsv(os.path.join(HERE, 'mutants', 'RESULTS.tsv'), mut)
    save_tsv(os.path.join(HERE, 'seeded', 'RESULTS.tsv'), seed)
    for name, (prop, outcome, sig) in seed.items():
        mp = os.path.join(HERE, 'seeded', name, 'meta.json')
        if os.path.exists(mp):
            m = json.load(open(mp))
            m['caught_by'] = (f"./check {prop} --tier quick => VIOLATION [{sig}]" if outcome == 'caught' else f"not caught by ./check {prop} --tier quick ({outcome})")
            m['what_i_ran'] = f"tools/mutation_run.sh seeded/{name}/patch.diff {prop}  (scratch worktree of /repo HEAD + the patch, scratch copy of the harness built against it, quick tier)"
            json.dump(m, open(mp, 'w'), indent=1)
    t1 = ['| mutant | check | outcome | signature |', '|---|---|---|---|']
    for k in sorted(mut):
        t1.append(f'| `{k}` | {mut[k][0]} | {mut[k][1]} | `{mut[k][2]}` |')
    t2 = ['| seeded change | what it needs to manifest | check | outcome | signature |', '|---|---|---|---|---|']
    for k in sorted(seed):
        mp = os.path.join(HERE, 'seeded', k, 'meta.json')
        trig = ''
        if os.path.exists(mp):
            trig = json.load(open(mp)).get('trigger', '')
            trig = trig.replace('|', '/').replace('\n', ' ')
            if len(trig) > 220:
                trig = trig[:217] + '...'
        t2.append(f'| `{k}` | {trig} | {seed[k][0]} | {seed[k][1]} | `{seed[k][2]}` |')
    print('\n'.join(t1))
    print()
    print('\n'.join(t2))
    # rewrite the marked blocks of DESIGN.md
    dp = os.path.join(HERE, 'DESIGN.md')
    d = open(dp).read()
    for tag, tab in (('MUTANTS', t1), ('SEEDED', t2)):
        b, e = f'<!-- BEGIN:{tag} -->', f'<!-- END:{tag} -->'
        if b in d and e in d:
            d = d[:d.index(b) + len(b)] + '\n' + '\n'.join(tab) + '\n' + d[d.index(e):]
    open(dp, 'w').write(d)

if __name__ == '__main__':
    main()
