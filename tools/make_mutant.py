#!/usr/bin/env python3
"""make_mutant.py <name> <file-relative-to-/repo> <old> <new> [occurrence]
Writes /verif/mutants/<name>.diff (a unified diff against /repo's working tree) that replaces
the given occurrence (default: the only one) of <old> by <new>."""
import sys, difflib
name, rel, old, new = sys.argv[1:5]
occ = int(sys.argv[5]) if len(sys.argv) > 5 else None
src = open('/repo/' + rel).read()
n = src.count(old)
if n == 0 or (n > 1 and occ is None):
    sys.exit(f"{name}: '{old[:40]}' occurs {n} times in {rel}")
if occ is None:
    dst = src.replace(old, new)
else:
    parts = src.split(old)
    dst = old.join(parts[:occ + 1]) + new + old.join(parts[occ + 1:])
diff = ''.join(difflib.unified_diff(src.splitlines(True), dst.splitlines(True), 'a/' + rel, 'b/' + rel))
open(f'/verif/mutants/{name}.diff', 'w').write(diff)
print(name, 'ok', len(diff.splitlines()), 'lines')
