#!/bin/bash
# Sensitivity runs: apply a patch to a scratch worktree of /repo, rebuild a scratch copy of
# the harness against it and run one check. Nothing in /repo or /verif is touched.
#   tools/mutation_run.sh <patch.diff> <PROP> [scale]
# prints: MUTANT <patch> <PROP> => caught|MISSED|build-failed (exit code of the check)
set -u
PATCH="$(readlink -f "$1")"; PROP="$2"; SCALE="${3:-1}"
ROOT=${UM_MUT_ROOT:-/var/tmp/um-mut}
mkdir -p $ROOT
exec 9>$ROOT/lock; flock 9
if [ ! -d $ROOT/repo/.git ] && [ ! -f $ROOT/repo/.git ]; then
  git -C /repo worktree add --detach $ROOT/repo HEAD >/dev/null 2>&1 || { echo "cannot create worktree"; exit 2; }
fi
git -C $ROOT/repo checkout -q --detach "$(git -C /repo rev-parse HEAD)" 2>/dev/null
git -C $ROOT/repo checkout -q -- . ; git -C $ROOT/repo clean -fdq -e target
if ! git -C $ROOT/repo apply "$PATCH" 2>$ROOT/apply.err; then
  echo "MUTANT $(basename $PATCH) $PROP => patch-does-not-apply"; cat $ROOT/apply.err | head -3; exit 2
fi
mkdir -p $ROOT/harness $ROOT/verif/evidence
rsync -a --delete --exclude target /verif/harness/ $ROOT/harness/
sed -i "s|path = \"/repo\"|path = \"$ROOT/repo\"|" $ROOT/harness/Cargo.toml
sed -i "s|target-dir = \"/verif/target\"|target-dir = \"$ROOT/target\"|" $ROOT/harness/.cargo/config.toml
rsync -a --delete /verif/replays/ $ROOT/verif/replays/ 2>/dev/null
cp /verif/known_findings.json $ROOT/verif/
( cd $ROOT/harness && CARGO_NET_OFFLINE=true cargo build --offline >$ROOT/build.log 2>&1 )
if [ $? -ne 0 ]; then
  echo "MUTANT $(basename $PATCH) $PROP => build-failed"; grep -E "^error" -A6 $ROOT/build.log | head -20; exit 2
fi
VERIF_DIR=$ROOT/verif VERIF_SCALE=$SCALE timeout ${MUT_TIMEOUT:-900} $ROOT/target/debug/umverif $PROP --tier quick >$ROOT/run.log 2>&1
rc=$?
case $rc in
  1) echo "MUTANT $(basename $PATCH) $PROP => caught ($(grep '^  sub=' $ROOT/run.log | grep -m1 -o 'signature=[^ ]*'))";;
  0) echo "MUTANT $(basename $PATCH) $PROP => MISSED"; tail -2 $ROOT/run.log;;
  *) echo "MUTANT $(basename $PATCH) $PROP => inconclusive rc=$rc"; tail -3 $ROOT/run.log;;
esac
git -C $ROOT/repo checkout -q -- .
exit 0
