#!/bin/bash
# Builds the libFuzzer targets (nightly, ASan) into /verif/target/fuzz. Best effort: a failure
# leaves the thorough tiers of C15/C16/C17 on their in-process generators (they say so).
HERE="$(cd "$(dirname "$0")" && pwd)"
cd "$HERE"
export CARGO_NET_OFFLINE=true
LOG="$HERE/../target/fuzz-build.log"
mkdir -p "$HERE/../target"
cargo +nightly fuzz build --fuzz-dir "$HERE" --target-dir "$HERE/../target/fuzz" -O >"$LOG" 2>&1
rc=$?
if [ $rc -ne 0 ]; then
  echo "fuzz build failed, see $LOG" >&2
  tail -5 "$LOG" >&2
fi
exit $rc
