#![no_main]
// libFuzzer entry of property C15: the semantic oracle lives in umverif::fuzzing::target_c15
use libfuzzer_sys::fuzz_target;

fuzz_target!(|data: &[u8]| {
    umverif::fuzzing::target_c15(data);
});
