#![no_main]
// libFuzzer entry of property C17: the semantic oracle lives in umverif::fuzzing::target_c17
use libfuzzer_sys::fuzz_target;

fuzz_target!(|data: &[u8]| {
    umverif::fuzzing::target_c17(data);
});
