//! umverif: property-based checks of doyoubi/undermoon (library part, shared by the `umverif`
//! binary and the libFuzzer targets in /verif/fuzz).
pub mod alloc;
pub mod engines;
pub mod fuzzing;
pub mod fw;
pub mod props;
