//! Framework shared by all property checks: context, proptest driver with
//! deterministic seeding, statistics, evidence writing, known-findings handling,
//! replay files.
use proptest::strategy::Strategy;
use proptest::test_runner::{Config, RngSeed, TestCaseError, TestError, TestRunner};
use serde::de::DeserializeOwned;
use serde::Serialize;
use serde_json::{json, Value};
use std::collections::hash_map::DefaultHasher;
use std::collections::{BTreeMap, HashSet};
use std::hash::{Hash, Hasher};
use std::panic::{catch_unwind, AssertUnwindSafe};
use std::path::PathBuf;
use std::sync::atomic::{AtomicBool, Ordering};
use std::sync::Mutex;
use std::time::Instant;

#[derive(Clone, Copy, PartialEq, Eq, Debug)]
pub enum Tier {
    Quick,
    Thorough,
}

impl Tier {
    pub fn name(self) -> &'static str {
        match self {
            Tier::Quick => "quick",
            Tier::Thorough => "thorough",
        }
    }
    pub fn pick<T>(self, quick: T, thorough: T) -> T {
        match self {
            Tier::Quick => quick,
            Tier::Thorough => thorough,
        }
    }
}

pub struct Ctx {
    pub prop: String,
    pub tier: Tier,
    pub seed: u64,
    pub replay: Option<PathBuf>,
    pub verif_dir: PathBuf,
    pub workers: usize,
    pub started: Instant,
    /// scale factor for case counts (env VERIF_SCALE, default 1.0) - used by sensitivity runs
    pub scale: f64,
}

impl Ctx {
    pub fn cases(&self, quick: u32, thorough: u32) -> u32 {
        let n = self.tier.pick(quick, thorough) as f64 * self.scale;
        (n.ceil() as u32).max(1)
    }
}

/// A failed check of one case. `signature` identifies the failure class for the
/// known-findings file; `message` is the human readable explanation.
#[derive(Debug, Clone)]
pub struct Fail {
    pub signature: String,
    pub message: String,
}

impl Fail {
    pub fn new(signature: impl Into<String>, message: impl Into<String>) -> Self {
        Fail {
            signature: signature.into(),
            message: message.into(),
        }
    }
}

#[macro_export]
macro_rules! fail {
    ($sig:expr, $($arg:tt)*) => {
        return Err($crate::fw::Fail::new($sig, format!($($arg)*)))
    };
}

#[macro_export]
macro_rules! ensure {
    ($cond:expr, $sig:expr, $($arg:tt)*) => {
        if !($cond) {
            return Err($crate::fw::Fail::new($sig, format!($($arg)*)));
        }
    };
}

/// Observations collected while checking one case.
#[derive(Default)]
pub struct Obs {
    pub nontrivial: bool,
    pub classes: Vec<String>,
    /// known-finding signatures hit (and tolerated) inside this case
    pub known_hits: Vec<(String, String)>,
    /// free-form numeric maxima (e.g. max rounds needed)
    pub maxima: Vec<(String, u64)>,
    pub excluded: u64,
}

impl Obs {
    pub fn class(&mut self, c: impl Into<String>) {
        let c = c.into();
        if !self.classes.contains(&c) {
            self.classes.push(c);
        }
    }
    pub fn class_n(&mut self, c: impl Into<String>) {
        self.classes.push(c.into());
    }
    pub fn maximum(&mut self, k: &str, v: u64) {
        self.maxima.push((k.to_string(), v));
    }
}

#[derive(Debug, Clone, serde::Deserialize, serde::Serialize)]
pub struct FindingEntry {
    pub status: String, // "known" | "fixed"
    pub property: String,
    pub signature: String,
    pub what: String,
    #[serde(default)]
    pub commit: Option<String>,
}

pub struct Findings {
    pub entries: Vec<FindingEntry>,
}

static KNOWN_SIGS: std::sync::OnceLock<Vec<(String, String)>> = std::sync::OnceLock::new();

/// signatures listed as `known` for the property being checked (set once in main)
pub fn set_known_signatures(f: &Findings, prop: &str) {
    let v = f
        .entries
        .iter()
        .filter(|e| e.status == "known" && e.property == prop)
        .map(|e| (e.signature.clone(), e.what.clone()))
        .collect();
    let _ = KNOWN_SIGS.set(v);
}

/// Inside a check that examines many sub-inputs per case: a failure whose signature is a
/// listed known finding is recorded and the check goes on; anything else is returned.
pub fn tolerate_known(obs: &mut Obs, fail: Fail) -> Result<(), Fail> {
    let known = KNOWN_SIGS.get().and_then(|v| v.iter().find(|(s, _)| *s == fail.signature));
    match known {
        Some((s, w)) => {
            if !obs.known_hits.iter().any(|(x, _)| x == s) {
                obs.known_hits.push((s.clone(), w.clone()));
            }
            obs.excluded += 1;
            Ok(())
        }
        None => Err(fail),
    }
}

impl Findings {
    pub fn load(verif_dir: &std::path::Path) -> Findings {
        let p = verif_dir.join("known_findings.json");
        let entries = match std::fs::read_to_string(&p) {
            Ok(s) => serde_json::from_str::<Vec<FindingEntry>>(&s).unwrap_or_else(|e| {
                eprintln!("cannot parse {}: {}", p.display(), e);
                std::process::exit(2);
            }),
            Err(_) => vec![],
        };
        Findings { entries }
    }
    /// a `known` (unrepaired) finding with exactly this signature
    pub fn known(&self, prop: &str, signature: &str) -> Option<&FindingEntry> {
        self.entries
            .iter()
            .find(|e| e.status == "known" && e.property == prop && e.signature == signature)
    }
}

#[derive(Default)]
pub struct Stats {
    pub evaluations: u64,
    pub nontrivial: HashSet<u64>,
    pub classes: BTreeMap<String, u64>,
    pub samples: Vec<Value>,
    pub known_hits: BTreeMap<String, (String, u64)>,
    pub maxima: BTreeMap<String, u64>,
    pub excluded: u64,
}

impl Stats {
    pub fn absorb(&mut self, case_hash: u64, obs: Obs, sample: Option<Value>) {
        self.evaluations += 1;
        if obs.nontrivial {
            self.nontrivial.insert(case_hash);
        }
        for c in obs.classes {
            *self.classes.entry(c).or_insert(0) += 1;
        }
        for (sig, what) in obs.known_hits {
            let e = self.known_hits.entry(sig).or_insert((what, 0));
            e.1 += 1;
        }
        for (k, v) in obs.maxima {
            let e = self.maxima.entry(k).or_insert(0);
            if v > *e {
                *e = v;
            }
        }
        self.excluded += obs.excluded;
        if let Some(s) = sample {
            self.samples.push(s);
        }
    }
    pub fn merge(&mut self, o: Stats) {
        self.evaluations += o.evaluations;
        self.nontrivial.extend(o.nontrivial);
        for (k, v) in o.classes {
            *self.classes.entry(k).or_insert(0) += v;
        }
        self.samples.extend(o.samples);
        for (k, (w, n)) in o.known_hits {
            let e = self.known_hits.entry(k).or_insert((w, 0));
            e.1 += n;
        }
        for (k, v) in o.maxima {
            let e = self.maxima.entry(k).or_insert(0);
            if v > *e {
                *e = v;
            }
        }
        self.excluded += o.excluded;
    }
}

#[derive(Debug, Clone)]
pub struct Violation {
    pub sub: String,
    pub signature: String,
    pub message: String,
    pub replay: PathBuf,
}

/// Result of one sub-check (one generator + oracle).
pub struct SubReport {
    pub name: String,
    pub rule: String,
    pub stats: Stats,
    pub violations: Vec<Violation>,
    pub exhaustive: bool,
}

pub fn splitmix(mut x: u64) -> u64 {
    x = x.wrapping_add(0x9E3779B97F4A7C15);
    let mut z = x;
    z = (z ^ (z >> 30)).wrapping_mul(0xBF58476D1CE4E5B9);
    z = (z ^ (z >> 27)).wrapping_mul(0x94D049BB133111EB);
    z ^ (z >> 31)
}

pub fn derive_seed(seed: u64, prop: &str, sub: &str, worker: usize) -> u64 {
    let mut h = DefaultHasher::new(); // SipHash with fixed zero keys: deterministic
    prop.hash(&mut h);
    sub.hash(&mut h);
    worker.hash(&mut h);
    splitmix(seed ^ h.finish())
}

pub fn hash_json<T: Serialize>(v: &T) -> u64 {
    let s = serde_json::to_string(v).unwrap_or_default();
    let mut h = DefaultHasher::new();
    s.hash(&mut h);
    h.finish()
}

// ---------------------------------------------------------------------------
// Deterministic std::collections::HashMap iteration order.
//
// undermoon iterates over std HashMaps in places where the order decides between
// equally valid outcomes (which free proxy is allocated, which tie wins). std seeds
// every thread's RandomState from getrandom(2) the first time a HashMap is created
// on that thread. The harness binary defines the `getrandom` symbol itself (it takes
// precedence over libc's); for threads that installed a hash seed it returns bytes
// derived from that seed, everything else gets the real syscall. Every case is run
// on a fresh thread with the seed installed, so a case plus its recorded `hseed`
// replays with identical map orders in any process.
// ---------------------------------------------------------------------------
thread_local! {
    static HSEED: std::cell::Cell<Option<u64>> = const { std::cell::Cell::new(None) };
    static HCTR: std::cell::Cell<u64> = const { std::cell::Cell::new(0) };
}

/// # Safety
/// called by libstd / C code with a valid buffer of `len` bytes
#[no_mangle]
pub unsafe extern "C" fn getrandom(buf: *mut u8, len: usize, flags: u32) -> isize {
    let seed = HSEED.try_with(|s| s.get()).ok().flatten();
    match seed {
        Some(seed) => {
            let c = HCTR.try_with(|c| {
                let v = c.get();
                c.set(v + 1);
                v
            })
            .unwrap_or(0);
            let mut x = splitmix(seed ^ splitmix(c));
            for i in 0..len {
                if i % 8 == 0 {
                    x = splitmix(x);
                }
                *buf.add(i) = (x >> ((i % 8) * 8)) as u8;
            }
            len as isize
        }
        None => libc::syscall(libc::SYS_getrandom, buf, len, flags) as isize,
    }
}

/// Run `f` on a fresh thread whose HashMaps are seeded deterministically from `hseed`.
pub fn on_seeded_thread<T: Send>(hseed: u64, f: impl FnOnce() -> T + Send) -> std::thread::Result<T> {
    std::thread::scope(|s| {
        std::thread::Builder::new()
            .stack_size(2 << 20)
            .spawn_scoped(s, move || {
                HSEED.with(|h| h.set(Some(hseed)));
                HCTR.with(|c| c.set(0));
                f()
            })
            .expect("spawn case thread")
            .join()
    })
}

/// Pure checks (no HashMap-order dependence inside the code under test) switch the
/// thread-per-case isolation off: it costs more than the check itself.
pub static CASE_THREADS: AtomicBool = AtomicBool::new(true);

/// upper bound on proptest's shrink iterations (checks whose failing cases are expensive lower it)
pub static MAX_SHRINK_ITERS: std::sync::atomic::AtomicU32 = std::sync::atomic::AtomicU32::new(4096);

thread_local! {
    /// true while proptest is shrinking a failing case on this thread
    pub static IS_SHRINKING: std::cell::Cell<bool> = const { std::cell::Cell::new(false) };
}

pub fn hseed_of(ctx_seed: u64) -> u64 {
    splitmix(ctx_seed ^ 0x68617368)
}

thread_local! {
    static LAST_PANIC: std::cell::RefCell<Option<String>> = const { std::cell::RefCell::new(None) };
}

pub fn install_panic_hook() {
    let quiet = std::env::var("VERIF_PANIC_VERBOSE").is_err();
    let default = std::panic::take_hook();
    std::panic::set_hook(Box::new(move |info| {
        let loc = info
            .location()
            .map(|l| format!("{}:{}", l.file(), l.line()))
            .unwrap_or_else(|| "?".into());
        let msg = if let Some(s) = info.payload().downcast_ref::<&str>() {
            s.to_string()
        } else if let Some(s) = info.payload().downcast_ref::<String>() {
            s.clone()
        } else {
            "<non-string panic>".into()
        };
        LAST_PANIC.with(|p| *p.borrow_mut() = Some(format!("{} at {}", msg, loc)));
        PANIC_LOG.lock().unwrap().push(format!("{} at {}", msg, loc));
        if !quiet {
            default(info);
        }
    }));
}

pub static PANIC_LOG: Mutex<Vec<String>> = Mutex::new(Vec::new());

pub fn take_last_panic() -> Option<String> {
    LAST_PANIC.with(|p| p.borrow_mut().take())
}

/// Drain the process-wide panic log (panics on any thread, e.g. inside spawned tasks).
pub fn drain_panic_log() -> Vec<String> {
    std::mem::take(&mut *PANIC_LOG.lock().unwrap())
}

/// Strip run-specific numbers from a panic message to make a stable signature.
pub fn panic_signature(p: &str) -> String {
    // keep location (file:line), drop the payload's digits
    let loc = p.rsplit(" at ").next().unwrap_or("?");
    let loc = loc.trim_start_matches("/repo/");
    format!("panic@{}", loc)
}

/// Run `check` on one case (on a fresh, deterministically seeded thread),
/// converting panics into failures.
pub fn run_case<C: Sync + Serialize>(
    hseed: u64,
    check: &(dyn Fn(&C, &mut Obs) -> Result<(), Fail> + Sync),
    case: &C,
    obs: &mut Obs,
) -> Result<(), Fail> {
    if std::env::var("VERIF_TRACE_CASES").is_ok() {
        eprintln!("CASE {}", serde_json::to_string(case).unwrap_or_default());
    }
    let body = || {
        let _ = take_last_panic();
        let mut o = Obs::default();
        let r = match catch_unwind(AssertUnwindSafe(|| check(case, &mut o))) {
            Ok(r) => r,
            Err(_) => {
                let p = take_last_panic().unwrap_or_else(|| "unknown panic".into());
                Err(Fail::new(panic_signature(&p), format!("panic: {}", p)))
            }
        };
        (r, o)
    };
    let r = if CASE_THREADS.load(Ordering::Relaxed) { on_seeded_thread(hseed, body) } else { Ok(body()) };
    match r {
        Ok((r, o)) => {
            *obs = o;
            r
        }
        Err(_) => Err(Fail::new("panic@case-thread", "the case thread died")),
    }
}

pub struct Sub<'a, C> {
    pub ctx: &'a Ctx,
    pub findings: &'a Findings,
    pub name: &'a str,
    pub rule: &'a str,
    pub cases: u32,
    pub max_samples: usize,
    pub _p: std::marker::PhantomData<C>,
}

pub fn write_replay<C: Serialize>(ctx: &Ctx, sub: &str, case: &C, fail: &Fail) -> PathBuf {
    let dir = ctx.verif_dir.join("replays").join(&ctx.prop);
    let _ = std::fs::create_dir_all(&dir);
    let h = hash_json(case);
    let path = dir.join(format!("{}-{:016x}.json", sub, h));
    let v = json!({
        "property": ctx.prop,
        "sub": sub,
        "signature": fail.signature,
        "message": fail.message,
        "seed": ctx.seed,
        "hseed": hseed_of(ctx.seed),
        "case": case,
    });
    let _ = std::fs::write(&path, serde_json::to_string_pretty(&v).unwrap());
    path
}

/// Generic proptest-driven sub-check. Splits `cases` over `ctx.workers` threads.
/// Known findings (signature listed as `known`) are tolerated and counted, the
/// search goes on; any other failure is shrunk, saved and reported.
pub fn drive<C, S>(
    ctx: &Ctx,
    findings: &Findings,
    name: &str,
    rule: &str,
    cases: u32,
    strategy: impl Fn() -> S + Sync,
    check: &(dyn Fn(&C, &mut Obs) -> Result<(), Fail> + Sync),
) -> SubReport
where
    C: std::fmt::Debug + Serialize + DeserializeOwned + Clone + Send + Sync,
    S: Strategy<Value = C>,
{
    let workers = ctx.workers.max(1).min(cases.max(1) as usize);
    let per = cases.div_ceil(workers as u32);
    let default_hseed = hseed_of(ctx.seed);
    let total = Mutex::new(Stats::default());
    let violations = Mutex::new(Vec::<Violation>::new());
    let stop_all = AtomicBool::new(false);

    // regression corpus first (bypasses proptest)
    let corpus_dir = ctx.verif_dir.join("replays").join(&ctx.prop).join("corpus");
    if let Ok(rd) = std::fs::read_dir(&corpus_dir) {
        let mut files: Vec<_> = rd.filter_map(|e| e.ok()).map(|e| e.path()).collect();
        files.sort();
        for f in files {
            let Ok(s) = std::fs::read_to_string(&f) else { continue };
            let Ok(v) = serde_json::from_str::<Value>(&s) else { continue };
            if v.get("sub").and_then(|x| x.as_str()) != Some(name) {
                continue;
            }
            let Ok(case) = serde_json::from_value::<C>(v["case"].clone()) else { continue };
            let hseed = v.get("hseed").and_then(|x| x.as_u64()).unwrap_or(default_hseed);
            let mut obs = Obs::default();
            let r = run_case(hseed, check, &case, &mut obs);
            let mut t = total.lock().unwrap();
            let h = hash_json(&case);
            obs.class("corpus-replay");
            match r {
                Ok(()) => t.absorb(h, obs, None),
                Err(fail) => {
                    if let Some(k) = findings.known(&ctx.prop, &fail.signature) {
                        obs.known_hits.push((fail.signature.clone(), k.what.clone()));
                        t.absorb(h, obs, None);
                    } else {
                        t.absorb(h, obs, None);
                        violations.lock().unwrap().push(Violation {
                            sub: name.to_string(),
                            signature: fail.signature.clone(),
                            message: fail.message.clone(),
                            replay: f.clone(),
                        });
                    }
                }
            }
        }
    }

    std::thread::scope(|scope| {
        for w in 0..workers {
            let total = &total;
            let violations = &violations;
            let stop_all = &stop_all;
            let strategy = &strategy;
            scope.spawn(move || {
                let hseed = default_hseed;
                let seed = derive_seed(ctx.seed, &ctx.prop, name, w);
                let config = Config {
                    cases: per,
                    failure_persistence: None,
                    rng_seed: RngSeed::Fixed(seed),
                    max_shrink_iters: MAX_SHRINK_ITERS.load(Ordering::Relaxed),
                    max_global_rejects: 65536,
                    ..Config::default()
                };
                let mut runner = TestRunner::new(config);
                let mut local = Stats::default();
                let failed = std::cell::Cell::new(false);
                let local_cell = std::cell::RefCell::new(&mut local);
                let count = std::cell::Cell::new(0u32);
                let last_fail: std::cell::RefCell<Option<Fail>> = std::cell::RefCell::new(None);
                let res = runner.run(&strategy(), |case: C| {
                    if stop_all.load(Ordering::Relaxed) && !failed.get() {
                        return Ok(());
                    }
                    IS_SHRINKING.with(|f| f.set(failed.get()));
                    let mut obs = Obs::default();
                    let r = run_case(hseed, check, &case, &mut obs);
                    let r = match r {
                        Err(fail) => match findings.known(&ctx.prop, &fail.signature) {
                            Some(k) => {
                                obs.known_hits.push((fail.signature.clone(), k.what.clone()));
                                Ok(())
                            }
                            None => Err(fail),
                        },
                        ok => ok,
                    };
                    if !failed.get() {
                        // count only the generation phase, not shrinking re-runs
                        let n = count.get();
                        count.set(n + 1);
                        let want_sample = n < 2 || (n == per - 1);
                        let sample = if want_sample && w == 0 {
                            serde_json::to_value(&case).ok()
                        } else {
                            None
                        };
                        let h = hash_json(&case);
                        if r.is_err() {
                            obs.nontrivial = false;
                        }
                        local_cell.borrow_mut().absorb(h, obs, sample);
                    }
                    match r {
                        Ok(()) => Ok(()),
                        Err(fail) => {
                            failed.set(true);
                            *last_fail.borrow_mut() = Some(fail.clone());
                            Err(TestCaseError::fail(fail.signature))
                        }
                    }
                });
                IS_SHRINKING.with(|f| f.set(false));
                if let Err(TestError::Fail(_, shrunk)) = res {
                    stop_all.store(true, Ordering::Relaxed);
                    // re-run the shrunk case for signature and message
                    let mut obs = Obs::default();
                    let fail = match run_case(hseed, check, &shrunk, &mut obs) {
                        Err(f) => f,
                        Ok(()) => match last_fail.borrow_mut().take() {
                            // a nondeterministic failure: report what was observed on this very case
                            Some(mut f) => {
                                f.message = format!("{}\n  (observed once; the saved case passed when re-run immediately: schedule-dependent)", f.message);
                                f
                            }
                            None => Fail::new("non-reproducible", "shrunk case passed when re-run (nondeterministic failure)"),
                        },
                    };
                    if findings.known(&ctx.prop, &fail.signature).is_none() {
                        let path = write_replay(ctx, name, &shrunk, &fail);
                        violations.lock().unwrap().push(Violation {
                            sub: name.to_string(),
                            signature: fail.signature,
                            message: fail.message,
                            replay: path,
                        });
                    }
                } else if let Err(TestError::Abort(reason)) = res {
                    eprintln!("[{}:{}] worker {} aborted: {}", ctx.prop, name, w, reason);
                    std::process::exit(2);
                }
                total.lock().unwrap().merge(local);
            });
        }
    });

    let mut stats = total.into_inner().unwrap();
    stats.samples.truncate(6);
    SubReport {
        name: name.to_string(),
        rule: rule.to_string(),
        stats,
        violations: violations.into_inner().unwrap(),
        exhaustive: false,
    }
}

/// Sub-check over an explicit (enumerated) list of cases, no proptest.
pub fn drive_enum<C>(
    ctx: &Ctx,
    findings: &Findings,
    name: &str,
    rule: &str,
    cases: Vec<C>,
    exhaustive: bool,
    check: &(dyn Fn(&C, &mut Obs) -> Result<(), Fail> + Sync),
) -> SubReport
where
    C: std::fmt::Debug + Serialize + Clone + Send + Sync,
{
    let total = Mutex::new(Stats::default());
    let violations = Mutex::new(Vec::<Violation>::new());
    let next = std::sync::atomic::AtomicUsize::new(0);
    let n = cases.len();
    let hseed = hseed_of(ctx.seed);
    let workers = ctx.workers.max(1).min(n.max(1));
    std::thread::scope(|scope| {
        for _ in 0..workers {
            scope.spawn(|| {
                let mut local = Stats::default();
                loop {
                    let i = next.fetch_add(1, Ordering::Relaxed);
                    if i >= n {
                        break;
                    }
                    let case = &cases[i];
                    let mut obs = Obs::default();
                    let r = run_case(hseed, check, case, &mut obs);
                    let h = hash_json(case);
                    let sample = if i < 2 || i == n - 1 {
                        serde_json::to_value(case).ok()
                    } else {
                        None
                    };
                    match r {
                        Ok(()) => local.absorb(h, obs, sample),
                        Err(fail) => {
                            if let Some(k) = findings.known(&ctx.prop, &fail.signature) {
                                obs.known_hits.push((fail.signature.clone(), k.what.clone()));
                                local.absorb(h, obs, sample);
                            } else {
                                obs.nontrivial = false;
                                local.absorb(h, obs, sample);
                                let mut v = violations.lock().unwrap();
                                if v.len() < 5 {
                                    let path = write_replay(ctx, name, case, &fail);
                                    v.push(Violation {
                                        sub: name.to_string(),
                                        signature: fail.signature,
                                        message: fail.message,
                                        replay: path,
                                    });
                                }
                            }
                        }
                    }
                }
                total.lock().unwrap().merge(local);
            });
        }
    });
    let mut stats = total.into_inner().unwrap();
    stats.samples.truncate(6);
    SubReport {
        name: name.to_string(),
        rule: rule.to_string(),
        stats,
        violations: violations.into_inner().unwrap(),
        exhaustive,
    }
}

/// Replay one saved case through a check function.
pub fn replay_case<C>(
    ctx: &Ctx,
    findings: &Findings,
    name: &str,
    v: &Value,
    check: &(dyn Fn(&C, &mut Obs) -> Result<(), Fail> + Sync),
) -> Option<SubReport>
where
    C: std::fmt::Debug + Serialize + DeserializeOwned + Clone + Send + Sync,
{
    if v.get("sub").and_then(|x| x.as_str()) != Some(name) {
        return None;
    }
    let case: C = match serde_json::from_value(v["case"].clone()) {
        Ok(c) => c,
        Err(e) => {
            eprintln!("replay file does not decode as a {} case: {}", name, e);
            std::process::exit(2);
        }
    };
    let mut stats = Stats::default();
    let mut violations = vec![];
    let mut obs = Obs::default();
    let hseed = v.get("hseed").and_then(|x| x.as_u64()).unwrap_or_else(|| hseed_of(ctx.seed));
    let r = run_case(hseed, check, &case, &mut obs);
    let h = hash_json(&case);
    match r {
        Ok(()) => {
            println!("replay: case passed");
            stats.absorb(h, obs, serde_json::to_value(&case).ok());
        }
        Err(fail) => {
            println!("replay: case failed: [{}] {}", fail.signature, fail.message);
            if let Some(k) = findings.known(&ctx.prop, &fail.signature) {
                obs.known_hits.push((fail.signature.clone(), k.what.clone()));
            } else {
                violations.push(Violation {
                    sub: name.to_string(),
                    signature: fail.signature,
                    message: fail.message,
                    replay: ctx.replay.clone().unwrap_or_default(),
                });
            }
            stats.absorb(h, obs, serde_json::to_value(&case).ok());
        }
    }
    Some(SubReport {
        name: name.to_string(),
        rule: "replay of a saved case".into(),
        stats,
        violations,
        exhaustive: false,
    })
}

pub struct PropReport {
    pub level: &'static str,
    pub subs: Vec<SubReport>,
    pub assumptions: Vec<String>,
    pub extra: BTreeMap<String, Value>,
}

/// Write evidence, print VIOLATION / KNOWN-FINDING lines, return exit code.
pub fn finish(ctx: &Ctx, findings: &Findings, rep: PropReport) -> i32 {
    let mut evaluations = 0u64;
    let mut nontrivial = 0u64;
    let mut classes = BTreeMap::new();
    let mut samples = vec![];
    let mut rules = vec![];
    let mut subs_json = vec![];
    let mut known: BTreeMap<String, (String, u64)> = BTreeMap::new();
    let mut violations = vec![];
    let mut excluded = 0;
    for s in &rep.subs {
        evaluations += s.stats.evaluations;
        nontrivial += s.stats.nontrivial.len() as u64;
        for (k, v) in &s.stats.classes {
            classes.insert(format!("{}/{}", s.name, k), *v);
        }
        for smp in s.stats.samples.iter().take(3) {
            samples.push(json!({"sub": s.name, "case": smp}));
        }
        rules.push(format!("[{}] {}", s.name, s.rule));
        for (k, (w, n)) in &s.stats.known_hits {
            let e = known.entry(k.clone()).or_insert((w.clone(), 0));
            e.1 += n;
        }
        excluded += s.stats.excluded;
        subs_json.push(json!({
            "name": s.name,
            "evaluations": s.stats.evaluations,
            "distinct_nontrivial": s.stats.nontrivial.len(),
            "exhaustive": s.exhaustive,
            "maxima": s.stats.maxima,
            "violations": s.violations.len(),
        }));
        violations.extend(s.violations.iter().cloned());
    }
    let wall = ctx.started.elapsed().as_secs_f64();
    let mut coverage = serde_json::Map::new();
    coverage.insert("evaluations".into(), json!(evaluations));
    coverage.insert("distinct_nontrivial".into(), json!(nontrivial));
    coverage.insert("rule".into(), json!(rules.join(" || ")));
    // keep samples small
    let samples: Vec<Value> = samples.into_iter().map(truncate_value).collect();
    coverage.insert("samples".into(), json!(samples));
    coverage.insert("classes".into(), json!(classes));
    coverage.insert("subchecks".into(), json!(subs_json));
    coverage.insert(
        "exhaustive".into(),
        json!(!rep.subs.is_empty() && rep.subs.iter().all(|s| s.exhaustive)),
    );
    coverage.insert("excluded_by_known_findings".into(), json!(excluded));
    coverage.insert(
        "known_findings_hit".into(),
        json!(known
            .iter()
            .map(|(k, (w, n))| json!({"signature": k, "what": w, "hits": n}))
            .collect::<Vec<_>>()),
    );
    for (k, v) in rep.extra {
        coverage.insert(k, v);
    }
    let ev = json!({
        "property_id": ctx.prop,
        "tier": ctx.tier.name(),
        "seed": ctx.seed,
        "level": rep.level,
        "coverage": coverage,
        "assumptions": rep.assumptions,
        "wall_s": wall,
        "violations": violations.len(),
    });
    if ctx.replay.is_none() {
        let dir = ctx.verif_dir.join("evidence");
        let _ = std::fs::create_dir_all(&dir);
        let p = dir.join(format!("{}.json", ctx.prop));
        if let Err(e) = std::fs::write(&p, serde_json::to_string_pretty(&ev).unwrap()) {
            eprintln!("cannot write evidence {}: {}", p.display(), e);
            return 2;
        }
    }
    // every listed (unrepaired) finding of this property is announced on every run, with the
    // number of times this run actually hit it
    if ctx.replay.is_none() {
        for e in findings.entries.iter().filter(|e| e.status == "known" && e.property == ctx.prop) {
            let hits = known.get(&e.signature).map(|x| x.1).unwrap_or(0);
            println!("KNOWN-FINDING: property={} {} [signature={} hits_in_this_run={}]", ctx.prop, e.what, e.signature, hits);
        }
    } else {
        for (sig, (what, n)) in &known {
            println!("KNOWN-FINDING: property={} {} [signature={} hits_in_this_run={}]", ctx.prop, what, sig, n);
        }
    }
    println!(
        "[{}] tier={} seed={} evaluations={} distinct_nontrivial={} violations={} wall={:.1}s",
        ctx.prop,
        ctx.tier.name(),
        ctx.seed,
        evaluations,
        nontrivial,
        violations.len(),
        wall
    );
    if violations.is_empty() {
        0
    } else {
        for v in &violations {
            println!("  sub={} signature={} :: {}", v.sub, v.signature, first_lines(&v.message, 12));
        }
        for v in &violations {
            println!("VIOLATION property={} replay={}", ctx.prop, v.replay.display());
        }
        1
    }
}

fn first_lines(s: &str, n: usize) -> String {
    s.lines().take(n).collect::<Vec<_>>().join("\n    ")
}

fn truncate_value(v: Value) -> Value {
    let s = serde_json::to_string(&v).unwrap_or_default();
    if s.len() <= 6000 {
        v
    } else {
        let mut cut = 6000;
        while !s.is_char_boundary(cut) {
            cut -= 1;
        }
        json!({"truncated_json": format!("{}…", &s[..cut]), "full_len": s.len()})
    }
}

/// monotone index mapping (keeps shrinking effective): maps a u16 onto 0..len
pub fn pick(i: u16, len: usize) -> usize {
    if len == 0 {
        0
    } else {
        ((i as usize) * len) >> 16
    }
}
