//! Engine C: pure codec helpers - RESP value model, reference encoder and the strict
//! reference recognizer used as differential oracle.
use proptest::prelude::*;
use serde::{Deserialize, Serialize};
use undermoon::protocol::{Array, BulkStr, Resp, RespVec};

#[derive(Debug, Clone, Serialize, Deserialize, PartialEq, Eq)]
pub enum RVal {
    Simple(Vec<u8>),
    Error(Vec<u8>),
    Int(Vec<u8>),
    Bulk(Option<Vec<u8>>),
    Arr(Option<Vec<RVal>>),
}

impl RVal {
    pub fn to_resp(&self) -> RespVec {
        match self {
            RVal::Simple(s) => Resp::Simple(s.clone()),
            RVal::Error(s) => Resp::Error(s.clone()),
            RVal::Int(s) => Resp::Integer(s.clone()),
            RVal::Bulk(None) => Resp::Bulk(BulkStr::Nil),
            RVal::Bulk(Some(s)) => Resp::Bulk(BulkStr::Str(s.clone())),
            RVal::Arr(None) => Resp::Arr(Array::Nil),
            RVal::Arr(Some(v)) => Resp::Arr(Array::Arr(v.iter().map(|x| x.to_resp()).collect())),
        }
    }
    pub fn from_resp(r: &RespVec) -> RVal {
        match r {
            Resp::Simple(s) => RVal::Simple(s.clone()),
            Resp::Error(s) => RVal::Error(s.clone()),
            Resp::Integer(s) => RVal::Int(s.clone()),
            Resp::Bulk(BulkStr::Nil) => RVal::Bulk(None),
            Resp::Bulk(BulkStr::Str(s)) => RVal::Bulk(Some(s.clone())),
            Resp::Arr(Array::Nil) => RVal::Arr(None),
            Resp::Arr(Array::Arr(v)) => RVal::Arr(Some(v.iter().map(RVal::from_resp).collect())),
        }
    }
    pub fn encoded(&self) -> Vec<u8> {
        let mut v = vec![];
        self.encode(&mut v);
        v
    }
    /// reference encoder written from the RESP2 specification
    pub fn encode(&self, out: &mut Vec<u8>) {
        match self {
            RVal::Simple(s) => {
                out.push(b'+');
                out.extend_from_slice(s);
                out.extend_from_slice(b"\r\n");
            }
            RVal::Error(s) => {
                out.push(b'-');
                out.extend_from_slice(s);
                out.extend_from_slice(b"\r\n");
            }
            RVal::Int(s) => {
                out.push(b':');
                out.extend_from_slice(s);
                out.extend_from_slice(b"\r\n");
            }
            RVal::Bulk(None) => out.extend_from_slice(b"$-1\r\n"),
            RVal::Bulk(Some(s)) => {
                out.extend_from_slice(format!("${}\r\n", s.len()).as_bytes());
                out.extend_from_slice(s);
                out.extend_from_slice(b"\r\n");
            }
            RVal::Arr(None) => out.extend_from_slice(b"*-1\r\n"),
            RVal::Arr(Some(v)) => {
                out.extend_from_slice(format!("*{}\r\n", v.len()).as_bytes());
                for x in v {
                    x.encode(out);
                }
            }
        }
    }
    pub fn depth(&self) -> usize {
        match self {
            RVal::Arr(Some(v)) => 1 + v.iter().map(|x| x.depth()).max().unwrap_or(0),
            _ => 0,
        }
    }
    pub fn has_crlf_payload(&self) -> bool {
        match self {
            RVal::Bulk(Some(s)) => s.iter().any(|b| *b == b'\r' || *b == b'\n'),
            RVal::Arr(Some(v)) => v.iter().any(|x| x.has_crlf_payload()),
            _ => false,
        }
    }
}

fn line_payload() -> impl Strategy<Value = Vec<u8>> {
    // simple/error/integer payloads: any byte except CR and LF (the RESP domain)
    prop::collection::vec(
        prop_oneof![8 => 0x20u8..0x7f, 1 => 0u8..10, 1 => 14u8..=255, 1 => Just(11u8)],
        0..20,
    )
}

fn bulk_payload() -> impl Strategy<Value = Vec<u8>> {
    let byte = prop_oneof![
        6 => any::<u8>(),
        2 => Just(b'\r'),
        2 => Just(b'\n'),
        1 => Just(b'$'),
        1 => Just(b'*'),
        1 => Just(0u8),
    ];
    prop_oneof![
        20 => prop::collection::vec(byte.clone(), 0..40),
        3 => prop::collection::vec(byte, 40..600),
        // large payloads are expanded from a seed (cheap to generate and to shrink)
        1 => (600usize..70000, any::<u64>()).prop_map(|(n, seed)| {
            let mut x = seed | 1;
            (0..n)
                .map(|i| {
                    x ^= x << 13;
                    x ^= x >> 7;
                    x ^= x << 17;
                    match (x >> 8) % 23 {
                        0 => b'\r',
                        1 => b'\n',
                        _ if i % 997 == 0 => b'$',
                        _ => (x >> 16) as u8,
                    }
                })
                .collect::<Vec<u8>>()
        }),
        1 => Just(b"\r\n".to_vec()),
        1 => Just(vec![]),
    ]
}

pub fn rval_strategy() -> impl Strategy<Value = RVal> {
    let leaf = prop_oneof![
        3 => line_payload().prop_map(RVal::Simple),
        2 => line_payload().prop_map(RVal::Error),
        3 => prop_oneof![
            3 => any::<i64>().prop_map(|i| i.to_string().into_bytes()),
            1 => line_payload(),
        ].prop_map(RVal::Int),
        8 => bulk_payload().prop_map(|b| RVal::Bulk(Some(b))),
        1 => Just(RVal::Bulk(None)),
        1 => Just(RVal::Arr(None)),
        1 => Just(RVal::Arr(Some(vec![]))),
    ];
    leaf.prop_recursive(5, 64, 12, |inner| {
        prop::collection::vec(inner, 0..12).prop_map(|v| RVal::Arr(Some(v)))
    })
}

#[derive(Debug, Clone, PartialEq, Eq)]
pub enum Verdict {
    Complete(RVal, usize),
    Incomplete,
    Invalid,
    /// the strict grammar makes no claim (content the implementation treats as opaque)
    Unspecified,
}

enum Line<'a> {
    Complete(&'a [u8], usize),
    Incomplete,
    Invalid,
    Unspecified,
}

fn line(b: &[u8]) -> Line<'_> {
    for i in 0..b.len() {
        match b[i] {
            b'\n' => return Line::Invalid, // LF not preceded by CR
            b'\r' => {
                if i + 1 == b.len() {
                    return Line::Incomplete;
                }
                if b[i + 1] == b'\n' {
                    return Line::Complete(&b[..i], i + 2);
                }
                // a CR inside a line: not RESP strictly, but servers differ - no claim
                return Line::Unspecified;
            }
            _ => {}
        }
    }
    Line::Incomplete
}

enum Len {
    N(usize),
    Nil,
    Invalid,
    Unspecified,
}

fn length(s: &[u8]) -> Len {
    if s == b"-1" {
        return Len::Nil;
    }
    if s.is_empty() {
        return Len::Invalid;
    }
    if s[0] == b'-' || s[0] == b'+' {
        // other negative lengths / explicit plus sign: opaque to the reference
        return if s.len() > 1 && s[1..].iter().all(|c| c.is_ascii_digit()) { Len::Unspecified } else { Len::Invalid };
    }
    if !s.iter().all(|c| c.is_ascii_digit()) {
        return Len::Invalid;
    }
    match std::str::from_utf8(s).ok().and_then(|x| x.parse::<u64>().ok()) {
        Some(n) if n <= i64::MAX as u64 => Len::N(n as usize),
        _ => Len::Unspecified,
    }
}

/// strict RESP2 recognizer
pub fn ref_parse(b: &[u8]) -> Verdict {
    if b.is_empty() {
        return Verdict::Incomplete;
    }
    let rest = &b[1..];
    match b[0] {
        t @ (b'+' | b'-' | b':') => match line(rest) {
            Line::Complete(c, n) => {
                let v = match t {
                    b'+' => RVal::Simple(c.to_vec()),
                    b'-' => RVal::Error(c.to_vec()),
                    _ => RVal::Int(c.to_vec()),
                };
                Verdict::Complete(v, 1 + n)
            }
            Line::Incomplete => Verdict::Incomplete,
            Line::Invalid => Verdict::Invalid,
            Line::Unspecified => Verdict::Unspecified,
        },
        b'$' => match line(rest) {
            Line::Complete(c, n) => match length(c) {
                Len::Nil => Verdict::Complete(RVal::Bulk(None), 1 + n),
                Len::Invalid => Verdict::Invalid,
                Len::Unspecified => Verdict::Unspecified,
                Len::N(len) => {
                    let need = n.checked_add(len).and_then(|x| x.checked_add(2));
                    match need {
                        Some(need) if rest.len() >= need => {
                            if &rest[n + len..n + len + 2] != b"\r\n" {
                                return Verdict::Invalid;
                            }
                            Verdict::Complete(RVal::Bulk(Some(rest[n..n + len].to_vec())), 1 + need)
                        }
                        _ => Verdict::Incomplete,
                    }
                }
            },
            Line::Incomplete => Verdict::Incomplete,
            Line::Invalid => Verdict::Invalid,
            Line::Unspecified => Verdict::Unspecified,
        },
        b'*' => match line(rest) {
            Line::Complete(c, n) => match length(c) {
                Len::Nil => Verdict::Complete(RVal::Arr(None), 1 + n),
                Len::Invalid => Verdict::Invalid,
                Len::Unspecified => Verdict::Unspecified,
                Len::N(count) => {
                    let mut pos = 1 + n;
                    let mut items = vec![];
                    for _ in 0..count {
                        match ref_parse(&b[pos..]) {
                            Verdict::Complete(v, used) => {
                                items.push(v);
                                pos += used;
                            }
                            other => return other,
                        }
                    }
                    Verdict::Complete(RVal::Arr(Some(items)), pos)
                }
            },
            Line::Incomplete => Verdict::Incomplete,
            Line::Invalid => Verdict::Invalid,
            Line::Unspecified => Verdict::Unspecified,
        },
        _ => Verdict::Invalid,
    }
}
