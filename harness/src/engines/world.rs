//! Engine B: an in-process world. Real proxies (`SharedForwardHandler`, the object
//! `handle_session` feeds), stateful Redis stand-ins and a fake network that implements
//! the two public seams `ConnFactory` (data path of every backend sender) and
//! `RedisClientFactory` (migration handshake, scan, replicators, coordinator->proxy).
//! Everything runs on one paused-clock current_thread tokio runtime: time is virtual,
//! the interleaving of messages is decided by the gate (delays / holds / cuts).
use crate::engines::codec::RVal;
use futures::channel::mpsc;
use futures::{Future, SinkExt, StreamExt};
use parking_lot::Mutex;
use std::collections::{BTreeMap, HashMap, HashSet, VecDeque};
use std::net::SocketAddr;
use std::num::NonZeroUsize;
use std::pin::Pin;
use std::sync::atomic::{AtomicBool, AtomicI64, AtomicU64, AtomicUsize, Ordering};
use std::sync::Arc;
use std::time::Duration;
use undermoon::common::batch::BatchStrategy;
use undermoon::common::track::TrackedFutureRegistry;
use undermoon::protocol::{
    Array, BinSafeStr, BulkStr, OptionalMulti, RedisClient, RedisClientError, RedisClientFactory, Resp, RespPacket, RespVec,
};
use undermoon::proxy::backend::{BackendError, ConnFactory, CreateConnResult};
use undermoon::proxy::command::Command;
use undermoon::proxy::executor::SharedForwardHandler;
use undermoon::proxy::manager::{MetaMap, SharedMetaMap};
use undermoon::proxy::service::{ClusterNodesVersion, ServerProxyConfig};
use undermoon::proxy::session::{CmdHandler, Session};
use undermoon::proxy::slowlog::SlowRequestLogger;

pub type Cmd = Vec<Vec<u8>>;

pub fn cmd(parts: &[&str]) -> Cmd {
    parts.iter().map(|s| s.as_bytes().to_vec()).collect()
}

pub fn cmdb(parts: &[&[u8]]) -> Cmd {
    parts.iter().map(|s| s.to_vec()).collect()
}

pub fn cmd_to_resp(c: &Cmd) -> RespVec {
    Resp::Arr(Array::Arr(c.iter().map(|b| Resp::Bulk(BulkStr::Str(b.clone()))).collect()))
}

pub fn resp_to_cmd(r: &RespVec) -> Option<Cmd> {
    match r {
        Resp::Arr(Array::Arr(v)) => v
            .iter()
            .map(|x| match x {
                Resp::Bulk(BulkStr::Str(s)) => Some(s.clone()),
                Resp::Simple(s) => Some(s.clone()),
                _ => None,
            })
            .collect(),
        _ => None,
    }
}

pub fn show_cmd(c: &Cmd) -> String {
    c.iter()
        .map(|b| {
            let s = String::from_utf8_lossy(b);
            if s.len() > 40 {
                format!("{}..({}B)", &s[..s.char_indices().nth(32).map(|x| x.0).unwrap_or(s.len())], b.len())
            } else {
                s.to_string()
            }
        })
        .collect::<Vec<_>>()
        .join(" ")
}

pub fn show_resp(r: &RespVec) -> String {
    fn go(r: &RespVec, out: &mut String) {
        let lossy = |b: &[u8]| {
            let s = String::from_utf8_lossy(b);
            if s.chars().count() > 60 {
                format!("{}..({}B)", s.chars().take(48).collect::<String>(), b.len())
            } else {
                s.to_string()
            }
        };
        match r {
            Resp::Simple(s) => out.push_str(&format!("+{}", lossy(s))),
            Resp::Error(s) => out.push_str(&format!("-{}", lossy(s))),
            Resp::Integer(s) => out.push_str(&format!(":{}", lossy(s))),
            Resp::Bulk(BulkStr::Nil) => out.push_str("(nil)"),
            Resp::Bulk(BulkStr::Str(s)) => out.push_str(&format!("\"{}\"", lossy(s))),
            Resp::Arr(Array::Nil) => out.push_str("(nil-array)"),
            Resp::Arr(Array::Arr(v)) => {
                out.push('[');
                for (i, x) in v.iter().enumerate() {
                    if i > 0 {
                        out.push_str(", ");
                    }
                    if out.len() > 400 {
                        out.push_str("...");
                        break;
                    }
                    go(x, out);
                }
                out.push(']');
            }
        }
    }
    let mut s = String::new();
    go(r, &mut s);
    let _ = RVal::from_resp;
    s
}

pub fn upper(b: &[u8]) -> String {
    String::from_utf8_lossy(b).to_uppercase()
}

// ---------------------------------------------------------------------------
// Redis stand-in
// ---------------------------------------------------------------------------

#[derive(Debug, Clone, PartialEq, Eq)]
pub enum Val {
    Str(Vec<u8>),
    List(VecDeque<Vec<u8>>),
    Hash(BTreeMap<Vec<u8>, Vec<u8>>),
    Set(std::collections::BTreeSet<Vec<u8>>),
    /// member -> score
    ZSet(BTreeMap<Vec<u8>, i64>),
}

#[derive(Debug, Clone)]
pub struct Entry {
    pub val: Val,
    /// virtual-clock expiry
    pub expire_at: Option<tokio::time::Instant>,
}

#[derive(Debug, Clone)]
pub struct LogEntry {
    pub at: Duration,
    pub seq: u64,
    pub conn: u64,
    pub cmd: Cmd,
    pub reply: RespVec,
}

pub struct Standin {
    pub addr: String,
    pub store: Mutex<BTreeMap<Vec<u8>, Entry>>,
    pub log: Mutex<Vec<LogEntry>>,
    pub start: tokio::time::Instant,
    seq: AtomicU64,
    pub master_of: Mutex<Option<String>>,
    /// SCAN batches are rotated by this to avoid depending on key order
    pub scan_salt: u64,
}

fn err(s: &str) -> RespVec {
    Resp::Error(s.as_bytes().to_vec())
}
fn int(n: i64) -> RespVec {
    Resp::Integer(n.to_string().into_bytes())
}
fn ok() -> RespVec {
    Resp::Simple(b"OK".to_vec())
}
fn bulk(b: Vec<u8>) -> RespVec {
    Resp::Bulk(BulkStr::Str(b))
}
fn nil() -> RespVec {
    Resp::Bulk(BulkStr::Nil)
}

fn parse_i64(b: &[u8]) -> Option<i64> {
    std::str::from_utf8(b).ok()?.parse().ok()
}

fn dump_val(v: &Val) -> Vec<u8> {
    // opaque serialization: tag byte + length-prefixed items
    let mut out = vec![];
    let put = |out: &mut Vec<u8>, b: &[u8]| {
        out.extend_from_slice(&(b.len() as u32).to_be_bytes());
        out.extend_from_slice(b);
    };
    match v {
        Val::Str(s) => {
            out.push(0xA1);
            put(&mut out, s);
        }
        Val::List(l) => {
            out.push(0xA2);
            for i in l {
                put(&mut out, i);
            }
        }
        Val::Hash(h) => {
            out.push(0xA3);
            for (k, v) in h {
                put(&mut out, k);
                put(&mut out, v);
            }
        }
        Val::Set(m) => {
            out.push(0xA4);
            for k in m {
                put(&mut out, k);
            }
        }
        Val::ZSet(z) => {
            out.push(0xA5);
            for (k, sc) in z {
                put(&mut out, k);
                put(&mut out, sc.to_string().as_bytes());
            }
        }
    }
    out
}

fn load_val(b: &[u8]) -> Option<Val> {
    let tag = *b.first()?;
    let mut items = vec![];
    let mut i = 1;
    while i < b.len() {
        let n = u32::from_be_bytes(b.get(i..i + 4)?.try_into().ok()?) as usize;
        i += 4;
        items.push(b.get(i..i + n)?.to_vec());
        i += n;
    }
    match tag {
        0xA1 => Some(Val::Str(items.into_iter().next()?)),
        0xA2 => Some(Val::List(items.into_iter().collect())),
        0xA3 => {
            let mut h = BTreeMap::new();
            let mut it = items.into_iter();
            while let (Some(k), Some(v)) = (it.next(), it.next()) {
                h.insert(k, v);
            }
            Some(Val::Hash(h))
        }
        0xA4 => Some(Val::Set(items.into_iter().collect())),
        0xA5 => {
            let mut z = BTreeMap::new();
            let mut it = items.into_iter();
            while let (Some(k), Some(v)) = (it.next(), it.next()) {
                z.insert(k, std::str::from_utf8(&v).ok()?.parse::<i64>().ok()?);
            }
            Some(Val::ZSet(z))
        }
        _ => None,
    }
}

impl Standin {
    pub fn new(addr: &str, scan_salt: u64) -> Standin {
        Standin {
            addr: addr.to_string(),
            store: Mutex::new(BTreeMap::new()),
            log: Mutex::new(vec![]),
            start: tokio::time::Instant::now(),
            seq: AtomicU64::new(0),
            master_of: Mutex::new(None),
            scan_salt,
        }
    }

    fn purge(&self, store: &mut BTreeMap<Vec<u8>, Entry>, key: &[u8]) {
        let now = tokio::time::Instant::now();
        if let Some(e) = store.get(key) {
            if let Some(t) = e.expire_at {
                if t <= now {
                    store.remove(key);
                }
            }
        }
    }

    pub fn get_raw(&self, key: &[u8]) -> Option<Entry> {
        let mut s = self.store.lock();
        self.purge(&mut s, key);
        s.get(key).cloned()
    }

    pub fn keys(&self) -> Vec<Vec<u8>> {
        let mut s = self.store.lock();
        let ks: Vec<Vec<u8>> = s.keys().cloned().collect();
        for k in &ks {
            self.purge(&mut s, k);
        }
        s.keys().cloned().collect()
    }

    pub fn log_snapshot(&self) -> Vec<LogEntry> {
        self.log.lock().clone()
    }

    pub fn exec(&self, conn: u64, c: &Cmd) -> RespVec {
        let reply = self.exec_inner(c);
        let seq = self.seq.fetch_add(1, Ordering::SeqCst);
        let mut log = self.log.lock();
        if log.len() % 200_000 == 199_999 && std::env::var("VERIF_DEBUG").is_ok() {
            eprintln!("standin {} executed {} commands; latest: {} (virtual time {:?})", self.addr, log.len() + 1, show_cmd(c), self.start.elapsed());
        }
        log.push(LogEntry { at: self.start.elapsed(), seq, conn, cmd: c.clone(), reply: reply.clone() });
        reply
    }

    fn exec_inner(&self, c: &Cmd) -> RespVec {
        if c.is_empty() {
            return err("ERR empty command");
        }
        let name = upper(&c[0]);
        let mut s = self.store.lock();
        let now = tokio::time::Instant::now();
        for k in c.iter().skip(1).take(8) {
            self.purge(&mut s, k);
        }
        let arity = |n: usize| c.len() >= n;
        let wrongtype = || err("WRONGTYPE Operation against a key holding the wrong kind of value");
        match name.as_str() {
            "PING" => Resp::Simple(b"PONG".to_vec()),
            "ECHO" if arity(2) => bulk(c[1].clone()),
            "SELECT" | "SLAVEOF" | "REPLICAOF" | "CONFIG" | "CLIENT" | "READONLY" => {
                if name == "SLAVEOF" && c.len() >= 3 {
                    *self.master_of.lock() = if upper(&c[1]) == "NO" { None } else { Some(format!("{}:{}", String::from_utf8_lossy(&c[1]), String::from_utf8_lossy(&c[2]))) };
                }
                ok()
            }
            "COMMAND" => Resp::Arr(Array::Arr(vec![])),
            "GET" if arity(2) => match s.get(&c[1]) {
                None => nil(),
                Some(Entry { val: Val::Str(v), .. }) => bulk(v.clone()),
                Some(_) => wrongtype(),
            },
            "SET" if arity(3) => {
                let mut expire: Option<tokio::time::Instant> = None;
                let (mut nx, mut xx, mut keepttl, mut get) = (false, false, false, false);
                let mut i = 3;
                while i < c.len() {
                    match upper(&c[i]).as_str() {
                        "NX" => nx = true,
                        "XX" => xx = true,
                        "KEEPTTL" => keepttl = true,
                        "GET" => get = true,
                        o @ ("EX" | "PX") => {
                            let Some(n) = c.get(i + 1).and_then(|b| parse_i64(b)) else { return err("ERR syntax error") };
                            if n <= 0 {
                                return err("ERR invalid expire time in 'set' command");
                            }
                            expire = match now.checked_add(if o == "EX" { Duration::from_secs(n as u64) } else { Duration::from_millis(n as u64) }) {
                                Some(t) => Some(t),
                                None => return err("ERR invalid expire time in 'set' command"),
                            };
                            i += 1;
                        }
                        _ => return err("ERR syntax error"),
                    }
                    i += 1;
                }
                let old = s.get(&c[1]).cloned();
                if (nx && old.is_some()) || (xx && old.is_none()) {
                    return nil();
                }
                let expire_at = if keepttl { old.as_ref().and_then(|e| e.expire_at) } else { expire };
                s.insert(c[1].clone(), Entry { val: Val::Str(c[2].clone()), expire_at });
                if get {
                    match old {
                        Some(Entry { val: Val::Str(v), .. }) => bulk(v),
                        _ => nil(),
                    }
                } else {
                    ok()
                }
            }
            "SETEX" | "PSETEX" if arity(4) => {
                let Some(n) = parse_i64(&c[2]) else { return err("ERR value is not an integer or out of range") };
                if n <= 0 {
                    return err("ERR invalid expire time");
                }
                let d = if name == "SETEX" { Duration::from_secs(n as u64) } else { Duration::from_millis(n as u64) };
                let Some(deadline) = now.checked_add(d) else { return err("ERR invalid expire time") };
                s.insert(c[1].clone(), Entry { val: Val::Str(c[3].clone()), expire_at: Some(deadline) });
                ok()
            }
            "SETNX" if arity(3) => {
                if s.contains_key(&c[1]) {
                    int(0)
                } else {
                    s.insert(c[1].clone(), Entry { val: Val::Str(c[2].clone()), expire_at: None });
                    int(1)
                }
            }
            "MSETNX" if arity(3) && c.len() % 2 == 1 => {
                if c[1..].chunks(2).any(|kv| s.contains_key(&kv[0])) {
                    return int(0);
                }
                for kv in c[1..].chunks(2) {
                    s.insert(kv[0].clone(), Entry { val: Val::Str(kv[1].clone()), expire_at: None });
                }
                int(1)
            }
            "GETSET" if arity(3) => {
                let old = s.insert(c[1].clone(), Entry { val: Val::Str(c[2].clone()), expire_at: None });
                match old {
                    Some(Entry { val: Val::Str(v), .. }) => bulk(v),
                    Some(_) => wrongtype(),
                    None => nil(),
                }
            }
            "APPEND" if arity(3) => match s.get_mut(&c[1]) {
                Some(Entry { val: Val::Str(v), .. }) => {
                    v.extend_from_slice(&c[2]);
                    int(v.len() as i64)
                }
                Some(_) => wrongtype(),
                None => {
                    s.insert(c[1].clone(), Entry { val: Val::Str(c[2].clone()), expire_at: None });
                    int(c[2].len() as i64)
                }
            },
            "STRLEN" if arity(2) => match s.get(&c[1]) {
                Some(Entry { val: Val::Str(v), .. }) => int(v.len() as i64),
                Some(_) => wrongtype(),
                None => int(0),
            },
            "GETRANGE" if arity(4) => match s.get(&c[1]) {
                Some(Entry { val: Val::Str(v), .. }) => bulk(v.clone()),
                _ => bulk(vec![]),
            },
            "INCR" | "DECR" | "INCRBY" | "DECRBY" if arity(2) => {
                let by = match name.as_str() {
                    "INCR" => 1,
                    "DECR" => -1,
                    _ => match c.get(2).and_then(|b| parse_i64(b)) {
                        Some(n) => {
                            if name == "INCRBY" {
                                n
                            } else {
                                -n
                            }
                        }
                        None => return err("ERR value is not an integer or out of range"),
                    },
                };
                let cur = match s.get(&c[1]) {
                    None => 0,
                    Some(Entry { val: Val::Str(v), .. }) => match parse_i64(v) {
                        Some(n) => n,
                        None => return err("ERR value is not an integer or out of range"),
                    },
                    Some(_) => return wrongtype(),
                };
                let Some(n) = cur.checked_add(by) else { return err("ERR increment or decrement would overflow") };
                let expire_at = s.get(&c[1]).and_then(|e| e.expire_at);
                s.insert(c[1].clone(), Entry { val: Val::Str(n.to_string().into_bytes()), expire_at });
                int(n)
            }
            "DEL" | "UNLINK" if arity(2) => {
                let mut n = 0;
                for k in &c[1..] {
                    self.purge(&mut s, k);
                    if s.remove(k).is_some() {
                        n += 1;
                    }
                }
                int(n)
            }
            "EXISTS" if arity(2) => {
                let mut n = 0;
                for k in &c[1..] {
                    self.purge(&mut s, k);
                    if s.contains_key(k) {
                        n += 1;
                    }
                }
                int(n)
            }
            "EXPIRE" | "PEXPIRE" if arity(3) => {
                let Some(n) = parse_i64(&c[2]) else { return err("ERR value is not an integer or out of range") };
                match s.get_mut(&c[1]) {
                    None => int(0),
                    Some(e) => {
                        if n <= 0 {
                            s.remove(&c[1]);
                        } else {
                            match now.checked_add(if name == "EXPIRE" { Duration::from_secs(n as u64) } else { Duration::from_millis(n as u64) }) {
                                Some(t) => e.expire_at = Some(t),
                                None => return err("ERR invalid expire time"),
                            }
                        }
                        int(1)
                    }
                }
            }
            "PERSIST" if arity(2) => match s.get_mut(&c[1]) {
                Some(e) if e.expire_at.is_some() => {
                    e.expire_at = None;
                    int(1)
                }
                _ => int(0),
            },
            "PTTL" | "TTL" if arity(2) => match s.get(&c[1]) {
                None => int(-2),
                Some(Entry { expire_at: None, .. }) => int(-1),
                Some(Entry { expire_at: Some(t), .. }) => {
                    let left = t.saturating_duration_since(now);
                    if name == "PTTL" {
                        int(left.as_millis() as i64) // floor: 0 for < 1 ms left, as in Redis
                    } else {
                        int(left.as_secs() as i64)
                    }
                }
            },
            "LPUSH" | "RPUSH" if arity(3) => {
                let e = s.entry(c[1].clone()).or_insert(Entry { val: Val::List(VecDeque::new()), expire_at: None });
                match &mut e.val {
                    Val::List(l) => {
                        for v in &c[2..] {
                            if name == "LPUSH" {
                                l.push_front(v.clone());
                            } else {
                                l.push_back(v.clone());
                            }
                        }
                        int(l.len() as i64)
                    }
                    _ => wrongtype(),
                }
            }
            "LPOP" | "RPOP" if arity(2) => {
                let (r, empty) = match s.get_mut(&c[1]) {
                    None => (nil(), false),
                    Some(Entry { val: Val::List(l), .. }) => {
                        let v = if name == "LPOP" { l.pop_front() } else { l.pop_back() };
                        (v.map(bulk).unwrap_or_else(nil), l.is_empty())
                    }
                    Some(_) => (wrongtype(), false),
                };
                if empty {
                    s.remove(&c[1]);
                }
                r
            }
            "LLEN" if arity(2) => match s.get(&c[1]) {
                Some(Entry { val: Val::List(l), .. }) => int(l.len() as i64),
                None => int(0),
                Some(_) => wrongtype(),
            },
            "HSET" if arity(4) => {
                let e = s.entry(c[1].clone()).or_insert(Entry { val: Val::Hash(BTreeMap::new()), expire_at: None });
                match &mut e.val {
                    Val::Hash(h) => {
                        let mut n = 0;
                        for kv in c[2..].chunks(2) {
                            if kv.len() == 2 && h.insert(kv[0].clone(), kv[1].clone()).is_none() {
                                n += 1;
                            }
                        }
                        int(n)
                    }
                    _ => wrongtype(),
                }
            }
            "HGET" if arity(3) => match s.get(&c[1]) {
                Some(Entry { val: Val::Hash(h), .. }) => h.get(&c[2]).cloned().map(bulk).unwrap_or_else(nil),
                None => nil(),
                Some(_) => wrongtype(),
            },
            "HDEL" if arity(3) => {
                let (r, empty) = match s.get_mut(&c[1]) {
                    Some(Entry { val: Val::Hash(h), .. }) => {
                        let n = c[2..].iter().filter(|f| h.remove(*f).is_some()).count();
                        (int(n as i64), h.is_empty())
                    }
                    None => (int(0), false),
                    Some(_) => (wrongtype(), false),
                };
                if empty {
                    s.remove(&c[1]);
                }
                r
            }
            "LREM" if arity(4) => {
                let (r, empty) = match s.get_mut(&c[1]) {
                    None => (int(0), false),
                    Some(Entry { val: Val::List(l), .. }) => {
                        let before = l.len();
                        l.retain(|x| x != &c[3]);
                        (int((before - l.len()) as i64), l.is_empty())
                    }
                    Some(_) => (wrongtype(), false),
                };
                if empty {
                    s.remove(&c[1]);
                }
                r
            }
            "LTRIM" if arity(4) => {
                let (Some(a), Some(b)) = (parse_i64(&c[2]), parse_i64(&c[3])) else { return err("ERR value is not an integer or out of range") };
                let (r, empty) = match s.get_mut(&c[1]) {
                    None => (ok(), false),
                    Some(Entry { val: Val::List(l), .. }) => {
                        let n = l.len() as i64;
                        let norm = |x: i64| if x < 0 { (n + x).max(0) } else { x };
                        let (a, b) = (norm(a), norm(b).min(n - 1));
                        let kept: VecDeque<Vec<u8>> = if a > b { VecDeque::new() } else { l.iter().skip(a as usize).take((b - a + 1) as usize).cloned().collect() };
                        *l = kept;
                        (ok(), l.is_empty())
                    }
                    Some(_) => (wrongtype(), false),
                };
                if empty {
                    s.remove(&c[1]);
                }
                r
            }
            "SADD" if arity(3) => {
                let e = s.entry(c[1].clone()).or_insert(Entry { val: Val::Set(Default::default()), expire_at: None });
                match &mut e.val {
                    Val::Set(m) => int(c[2..].iter().filter(|x| m.insert((*x).clone())).count() as i64),
                    _ => wrongtype(),
                }
            }
            "SREM" | "SPOP" | "SCARD" | "SISMEMBER" if arity(2) => {
                let (r, empty) = match s.get_mut(&c[1]) {
                    None => (if name == "SPOP" { nil() } else { int(0) }, false),
                    Some(Entry { val: Val::Set(m), .. }) => {
                        let r = match name.as_str() {
                            "SREM" => int(c[2..].iter().filter(|x| m.remove(*x)).count() as i64),
                            "SPOP" => match m.iter().next().cloned() {
                                Some(x) => {
                                    m.remove(&x);
                                    bulk(x)
                                }
                                None => nil(),
                            },
                            "SCARD" => int(m.len() as i64),
                            _ => int(c.get(2).map(|x| m.contains(x)).unwrap_or(false) as i64),
                        };
                        (r, m.is_empty())
                    }
                    Some(_) => (wrongtype(), false),
                };
                if empty {
                    s.remove(&c[1]);
                }
                r
            }
            "ZADD" if arity(4) => {
                let Some(score) = parse_i64(&c[2]) else { return err("ERR value is not a valid float") };
                let e = s.entry(c[1].clone()).or_insert(Entry { val: Val::ZSet(BTreeMap::new()), expire_at: None });
                match &mut e.val {
                    Val::ZSet(z) => int(z.insert(c[3].clone(), score).is_none() as i64),
                    _ => wrongtype(),
                }
            }
            "ZREM" | "ZPOPMIN" | "ZPOPMAX" | "ZCARD" | "ZREMRANGEBYRANK" | "ZREMRANGEBYSCORE" | "ZREMRANGEBYLEX" if arity(2) => {
                let (r, empty) = match s.get_mut(&c[1]) {
                    None => (if name.starts_with("ZPOP") { Resp::Arr(Array::Arr(vec![])) } else { int(0) }, false),
                    Some(Entry { val: Val::ZSet(z), .. }) => {
                        let r = match name.as_str() {
                            "ZREM" => int(c[2..].iter().filter(|x| z.remove(*x).is_some()).count() as i64),
                            "ZCARD" => int(z.len() as i64),
                            "ZPOPMIN" | "ZPOPMAX" => {
                                let pick = if name == "ZPOPMIN" { z.iter().min_by_key(|(m, sc)| (**sc, (*m).clone())).map(|(m, sc)| (m.clone(), *sc)) } else { z.iter().max_by_key(|(m, sc)| (**sc, (*m).clone())).map(|(m, sc)| (m.clone(), *sc)) };
                                match pick {
                                    Some((m, sc)) => {
                                        z.remove(&m);
                                        Resp::Arr(Array::Arr(vec![bulk(m), bulk(sc.to_string().into_bytes())]))
                                    }
                                    None => Resp::Arr(Array::Arr(vec![])),
                                }
                            }
                            // the harness only uses the whole-range forms (0 -1 / -inf +inf / - +)
                            _ => {
                                let n = z.len();
                                z.clear();
                                int(n as i64)
                            }
                        };
                        (r, z.is_empty())
                    }
                    Some(_) => (wrongtype(), false),
                };
                if empty {
                    s.remove(&c[1]);
                }
                r
            }
            "EXPIREAT" | "PEXPIREAT" if arity(3) => {
                // absolute unix times: anything before the year 2001 is in the past (the key is deleted at once),
                // anything later is far beyond the run (the key stays)
                let Some(n) = parse_i64(&c[2]) else { return err("ERR value is not an integer or out of range") };
                let secs = if name == "EXPIREAT" { n } else { n / 1000 };
                match s.get_mut(&c[1]) {
                    None => int(0),
                    Some(e) => {
                        if secs < 1_000_000_000 {
                            s.remove(&c[1]);
                        } else {
                            e.expire_at = now.checked_add(Duration::from_secs(1_000_000_000));
                        }
                        int(1)
                    }
                }
            }
            "DUMP" if arity(2) => match s.get(&c[1]) {
                None => nil(),
                Some(e) => bulk(dump_val(&e.val)),
            },
            "RESTORE" if arity(4) => {
                let Some(ttl) = parse_i64(&c[2]) else { return err("ERR value is not an integer or out of range") };
                if ttl < 0 {
                    return err("ERR Invalid TTL value, must be >= 0");
                }
                let replace = c.iter().skip(4).any(|o| upper(o) == "REPLACE");
                if s.contains_key(&c[1]) && !replace {
                    return err("BUSYKEY Target key name already exists.");
                }
                let Some(val) = load_val(&c[3]) else { return err("ERR DUMP payload version or checksum are wrong") };
                let expire_at = if ttl == 0 {
                    None
                } else {
                    match now.checked_add(Duration::from_millis(ttl as u64)) {
                        Some(t) => Some(t),
                        None => return err("ERR Invalid TTL value"),
                    }
                };
                s.insert(c[1].clone(), Entry { val, expire_at });
                ok()
            }
            "SCAN" if arity(2) => {
                // key-ordered cursor: cursor n = "resume after the n-th smallest key seen so far" is
                // not stable under deletion, so the cursor encodes a position in a stable key order
                // of a snapshot taken lazily: we use the rank of the last returned key + 1 among
                // ALL keys (live), re-resolved by key value stored per cursor id.
                let Some(cursor) = std::str::from_utf8(&c[1]).ok().and_then(|x| x.parse::<u64>().ok()) else { return err("ERR invalid cursor") };
                let mut count = 10usize;
                let mut i = 2;
                while i + 1 < c.len() {
                    if upper(&c[i]) == "COUNT" {
                        count = parse_i64(&c[i + 1]).unwrap_or(10).max(1) as usize;
                    }
                    i += 2;
                }
                drop(s);
                self.scan(cursor, count)
            }
            // two fixed scripts are understood (the stand-in has no Lua): delete / read KEYS[1]
            "EVAL" if arity(4) && c[1] == b"return redis.call('del',KEYS[1])" => int(s.remove(&c[3]).is_some() as i64),
            "EVAL" if arity(4) && c[1] == b"return redis.call('get',KEYS[1])" => match s.get(&c[3]) {
                Some(Entry { val: Val::Str(v), .. }) => bulk(v.clone()),
                None => nil(),
                Some(_) => wrongtype(),
            },
            "EVAL" | "EVALSHA" => bulk(b"EVAL-EXECUTED".to_vec()),
            "DBSIZE" => int(s.len() as i64),
            "FLUSHALL" | "FLUSHDB" => {
                s.clear();
                ok()
            }
            _ => err(&format!("ERR unknown command `{}` or wrong number of arguments", name)),
        }
    }

    // cursors: cursor id -> key to resume after
    fn scan(&self, cursor: u64, count: usize) -> RespVec {
        let mut cursors = SCAN_CURSORS.lock();
        let s = self.store.lock();
        let resume_after: Option<Vec<u8>> = if cursor == 0 { None } else { cursors.get(&(self.addr.clone(), cursor)).cloned() };
        if cursor != 0 && resume_after.is_none() {
            // unknown cursor: Redis would treat it as some position; start over is allowed by the guarantees
        }
        let mut batch: Vec<Vec<u8>> = match &resume_after {
            None => s.keys().take(count).cloned().collect(),
            Some(k) => s.range::<Vec<u8>, _>((std::ops::Bound::Excluded(k.clone()), std::ops::Bound::Unbounded)).take(count).map(|(k, _)| k.clone()).collect(),
        };
        let last = batch.last().cloned();
        let more = match &last {
            Some(l) => s.range::<Vec<u8>, _>((std::ops::Bound::Excluded(l.clone()), std::ops::Bound::Unbounded)).next().is_some(),
            None => false,
        };
        let next = if more {
            let id = NEXT_CURSOR.fetch_add(1, Ordering::SeqCst);
            cursors.insert((self.addr.clone(), id), last.expect("last"));
            id
        } else {
            0
        };
        // order inside a batch is unspecified in Redis: rotate it
        if !batch.is_empty() {
            let r = (self.scan_salt as usize + cursor as usize) % batch.len();
            batch.rotate_left(r);
        }
        Resp::Arr(Array::Arr(vec![bulk(next.to_string().into_bytes()), Resp::Arr(Array::Arr(batch.into_iter().map(bulk).collect()))]))
    }
}

static SCAN_CURSORS: Mutex<BTreeMap<(String, u64), Vec<u8>>> = Mutex::new(BTreeMap::new());
static NEXT_CURSOR: AtomicU64 = AtomicU64::new(1);

// ---------------------------------------------------------------------------
// Gate: decides delay / hold / cut for every message
// ---------------------------------------------------------------------------

#[derive(Debug, Clone)]
pub struct Msg {
    /// free-form detail recorded with the trace entry (the epoch for SETCLUSTER)
    pub detail: String,
    pub to: String,
    /// upper-case command name, `UMCTL:<SUB>` for control commands
    pub kind: String,
    pub conn: u64,
    pub is_reply: bool,
}

pub fn detail_of(c: &Cmd) -> String {
    if c.len() > 3 && upper(&c[0]) == "UMCTL" && upper(&c[1]) == "SETCLUSTER" {
        String::from_utf8_lossy(&c[3]).to_string()
    } else {
        String::new()
    }
}

pub fn kind_of(c: &Cmd) -> String {
    let n = c.first().map(|b| upper(b)).unwrap_or_default();
    if n == "UMCTL" {
        format!("UMCTL:{}", c.get(1).map(|b| upper(b)).unwrap_or_default())
    } else {
        n
    }
}

#[derive(Default)]
pub struct Gate {
    /// message kinds whose REQUESTS are currently held
    pub held: Mutex<HashSet<String>>,
    pub notify: tokio::sync::Notify,
    /// delay table (virtual microseconds), indexed by hash(kind,to)+occurrence
    pub delays: Mutex<Vec<u32>>,
    occurrences: Mutex<HashMap<(String, String), u64>>,
    /// log of every request that passed: (time, to, kind)
    pub trace: Mutex<Vec<(Duration, String, String)>>,
    /// detail of each trace entry (same index)
    pub details: Mutex<Vec<String>>,
    pub start: Mutex<Option<tokio::time::Instant>>,
    /// addresses that refuse connections / whose connections are cut
    pub down: Mutex<HashSet<String>>,
    /// one-shot faults: (kind, to, occurrence) -> fault
    pub faults: Mutex<HashMap<(String, String, u64), Fault>>,
    pub fault_hits: Mutex<Vec<(String, String, u64, Fault)>>,
}

#[derive(Debug, Clone, Copy, PartialEq, Eq, serde::Serialize, serde::Deserialize)]
pub enum Fault {
    /// the request never reaches the target, the caller sees a broken connection
    DropRequest,
    /// the target executes the request, the caller sees a broken connection
    DropReply,
    /// the request is executed twice, the caller sees the second reply
    Duplicate,
    /// the caller sees a broken connection now; the request reaches the target 20 virtual ms later
    /// (reordered behind the calls the caller makes in the meantime)
    DelayShort,
    /// the same with 2 virtual seconds: the request arrives rounds later (stale replay)
    DelayLong,
}

impl Fault {
    pub fn delay(&self) -> Option<Duration> {
        match self {
            Fault::DelayShort => Some(Duration::from_millis(20)),
            Fault::DelayLong => Some(Duration::from_secs(2)),
            _ => None,
        }
    }
}

fn fnv(a: &str, b: &str) -> u64 {
    let mut h: u64 = 0xcbf29ce484222325;
    for x in a.bytes().chain([0u8]).chain(b.bytes()) {
        h ^= x as u64;
        h = h.wrapping_mul(0x100000001b3);
    }
    h
}

impl Gate {
    /// a harness marker in the trace (round boundaries etc.)
    pub fn mark(&self, what: &str) {
        let start = *self.start.lock().get_or_insert_with(tokio::time::Instant::now);
        let mut tr = self.trace.lock();
        tr.push((start.elapsed(), "-".to_string(), what.to_string()));
        self.details.lock().push(String::new());
    }

    pub fn hold(&self, kind: &str) {
        self.held.lock().insert(kind.to_string());
    }
    pub fn release(&self, kind: &str) {
        self.held.lock().remove(kind);
        self.notify.notify_waiters();
    }
    pub fn release_all(&self) {
        self.held.lock().clear();
        self.notify.notify_waiters();
    }
    pub fn set_delays(&self, d: Vec<u32>) {
        *self.delays.lock() = d;
    }
    fn occurrence(&self, m: &Msg) -> u64 {
        let mut o = self.occurrences.lock();
        let e = o.entry((m.kind.clone(), m.to.clone())).or_insert(0);
        *e += 1;
        *e
    }
    /// wait until the message may pass; returns an injected fault if one matches
    pub async fn pass(&self, m: &Msg) -> Option<Fault> {
        let mut fault = None;
        if !m.is_reply {
            let occ = self.occurrence(m);
            if let Some(f) = self.faults.lock().remove(&(m.kind.clone(), m.to.clone(), occ)) {
                self.fault_hits.lock().push((m.kind.clone(), m.to.clone(), occ, f));
                fault = Some(f);
            }
            // wildcard target: the n-th message of this kind to anybody
            let any = Msg { detail: String::new(), to: "*".to_string(), kind: m.kind.clone(), conn: m.conn, is_reply: false };
            let occ_any = self.occurrence(&any);
            if fault.is_none() {
                if let Some(f) = self.faults.lock().remove(&(m.kind.clone(), "*".to_string(), occ_any)) {
                    self.fault_hits.lock().push((m.kind.clone(), m.to.clone(), occ_any, f));
                    fault = Some(f);
                }
            }
            loop {
                if !self.held.lock().contains(&m.kind) {
                    break;
                }
                let n = self.notify.notified();
                if !self.held.lock().contains(&m.kind) {
                    break;
                }
                n.await;
            }
            let d = {
                let t = self.delays.lock();
                if t.is_empty() {
                    0
                } else {
                    t[((fnv(&m.kind, &m.to).wrapping_add(occ)) % t.len() as u64) as usize]
                }
            };
            if d > 0 {
                tokio::time::sleep(Duration::from_micros(d as u64)).await;
            }
            let start = *self.start.lock().get_or_insert_with(tokio::time::Instant::now);
            let mut tr = self.trace.lock();
            tr.push((start.elapsed(), m.to.clone(), m.kind.clone()));
            self.details.lock().push(m.detail.clone());
            drop(tr);
        }
        fault
    }
}

// ---------------------------------------------------------------------------
// Network
// ---------------------------------------------------------------------------

#[derive(Clone)]
pub enum Target {
    Redis(Arc<Standin>),
    Proxy(Arc<ProxyNode>),
}

pub struct Net {
    me: std::sync::Weak<Net>,
    pub nodes: Mutex<HashMap<String, Target>>,
    pub gate: Gate,
    next_conn: AtomicU64,
    /// connections opened so far: (conn id, target address)
    pub conns: Mutex<Vec<(u64, String)>>,
}

pub struct ProxyNode {
    pub addr: String,
    pub config: Arc<ServerProxyConfig>,
    pub handler: SharedForwardHandler<Net, Net>,
    pub slowlog: Arc<SlowRequestLogger>,
    next_session: AtomicUsize,
    /// set when the proxy was "restarted": connections to the old instance die
    pub dead: AtomicBool,
}

#[derive(Debug, Clone)]
pub struct ProxyOpts {
    pub backend_conn_num: usize,
    pub active_redirection: bool,
    pub batch: u8,
    pub nodes_v2: bool,
    pub password: Option<String>,
    /// max_redirections of the proxy when active redirection is on (0 = the default 4)
    pub max_redirections: u8,
}

impl Default for ProxyOpts {
    fn default() -> Self {
        ProxyOpts { backend_conn_num: 1, active_redirection: false, batch: 0, nodes_v2: false, password: None, max_redirections: 0 }
    }
}

pub fn host_of(addr: &str) -> String {
    addr.split(':').next().unwrap_or("").to_string()
}

impl ProxyNode {
    pub fn new(net: &Arc<Net>, addr: &str, opts: &ProxyOpts) -> Arc<ProxyNode> {
        let config = Arc::new(ServerProxyConfig {
            address: addr.to_string(),
            announce_address: addr.to_string(),
            announce_host: host_of(addr),
            slowlog_len: NonZeroUsize::new(16).expect("nz"),
            slowlog_log_slower_than: AtomicI64::new(50000),
            slowlog_sample_rate: AtomicU64::new(1000),
            thread_number: NonZeroUsize::new(1).expect("nz"),
            backend_conn_num: NonZeroUsize::new(opts.backend_conn_num.max(1)).expect("nz"),
            active_redirection: opts.active_redirection,
            // 255 = the configuration value 0: no limit (commands are then forwarded without a UMFORWARD wrapper)
            max_redirections: if opts.active_redirection && opts.max_redirections != 255 { NonZeroUsize::new(if opts.max_redirections == 0 { 4 } else { opts.max_redirections as usize }) } else { None },
            default_redirection_address: None,
            backend_batch_strategy: match opts.batch {
                0 => BatchStrategy::Disabled,
                1 => BatchStrategy::Fixed,
                _ => BatchStrategy::Dynamic,
            },
            backend_flush_size: NonZeroUsize::new(4).expect("nz"),
            backend_low_flush_interval: Duration::from_micros(200),
            backend_high_flush_interval: Duration::from_micros(600),
            session_timeout: None,
            backend_timeout: Duration::from_secs(3),
            password: opts.password.clone(),
            command_cluster_nodes_version: if opts.nodes_v2 { ClusterNodesVersion::V2 } else { ClusterNodesVersion::V1 },
        });
        let meta_map: SharedMetaMap<Net> = Arc::new(arc_swap::ArcSwap::new(Arc::new(MetaMap::empty())));
        let registry = Arc::new(TrackedFutureRegistry::default());
        let slowlog = Arc::new(SlowRequestLogger::new(config.clone()));
        let (stopped, _rx) = mpsc::unbounded();
        // keep the receiver alive for the lifetime of the process (SHUTDOWN is not part of the worlds)
        std::mem::forget(_rx);
        let handler = SharedForwardHandler::new(config.clone(), net.clone(), slowlog.clone(), meta_map, net.clone(), registry, stopped);
        Arc::new(ProxyNode { addr: addr.to_string(), config, handler, slowlog, next_session: AtomicUsize::new(1), dead: AtomicBool::new(false) })
    }

    pub fn new_session(&self) -> Session<SharedForwardHandler<Net, Net>> {
        let id = self.next_session.fetch_add(1, Ordering::SeqCst);
        Session::new(id, self.handler.clone(), self.slowlog.clone(), self.config.clone())
    }
}

/// run one command on a session and return its reply
pub async fn session_cmd(session: &Session<SharedForwardHandler<Net, Net>>, c: &Cmd) -> RespVec {
    let packet = Box::new(RespPacket::from_resp_vec(cmd_to_resp(c)));
    let fut = session.handle_cmd(Command::new(packet));
    match fut.await {
        Ok(reply) => reply.into_resp_vec(),
        Err(e) => Resp::Error(format!("Err cmd error {:?}", e).into_bytes()),
    }
}

impl Net {
    pub fn new() -> Arc<Net> {
        Arc::new_cyclic(|me| Net { me: me.clone(), nodes: Mutex::new(HashMap::new()), gate: Gate::default(), next_conn: AtomicU64::new(1), conns: Mutex::new(vec![]) })
    }

    pub fn add_redis(&self, addr: &str, salt: u64) -> Arc<Standin> {
        let s = Arc::new(Standin::new(addr, salt));
        self.nodes.lock().insert(addr.to_string(), Target::Redis(s.clone()));
        s
    }

    pub fn add_proxy(self: &Arc<Self>, addr: &str, opts: &ProxyOpts) -> Arc<ProxyNode> {
        let p = ProxyNode::new(self, addr, opts);
        if let Some(Target::Proxy(old)) = self.nodes.lock().insert(addr.to_string(), Target::Proxy(p.clone())) {
            old.dead.store(true, Ordering::SeqCst);
        }
        p
    }

    pub fn lookup(&self, addr: &str) -> Option<Target> {
        if self.gate.down.lock().contains(addr) {
            return None;
        }
        self.nodes.lock().get(addr).cloned()
    }

    pub fn redis(&self, addr: &str) -> Option<Arc<Standin>> {
        match self.nodes.lock().get(addr) {
            Some(Target::Redis(s)) => Some(s.clone()),
            _ => None,
        }
    }

    pub fn proxy(&self, addr: &str) -> Option<Arc<ProxyNode>> {
        match self.nodes.lock().get(addr) {
            Some(Target::Proxy(p)) => Some(p.clone()),
            _ => None,
        }
    }

    fn open(self: &Arc<Self>, addr: &str) -> Option<Conn> {
        let target = self.lookup(addr)?;
        let id = self.next_conn.fetch_add(1, Ordering::SeqCst);
        self.conns.lock().push((id, addr.to_string()));
        let (req_tx, req_rx) = mpsc::unbounded::<Cmd>();
        let (rep_tx, rep_rx) = mpsc::unbounded::<RespVec>();
        let net = self.clone();
        let addr = addr.to_string();
        tokio::spawn(conn_task(net, id, addr, target, req_rx, rep_tx));
        Some(Conn { req_tx, rep_rx })
    }
}

pub struct Conn {
    req_tx: mpsc::UnboundedSender<Cmd>,
    rep_rx: mpsc::UnboundedReceiver<RespVec>,
}

/// serves one connection: requests are taken in order, pass the gate, are executed by the
/// target; replies leave in request order (a proxy target may work on several at once).
async fn conn_task(net: Arc<Net>, id: u64, addr: String, target: Target, mut req_rx: mpsc::UnboundedReceiver<Cmd>, rep_tx: mpsc::UnboundedSender<RespVec>) {
    match target {
        Target::Redis(s) => {
            while let Some(c) = req_rx.next().await {
                let m = Msg { detail: detail_of(&c), to: addr.clone(), kind: kind_of(&c), conn: id, is_reply: false };
                let fault = net.gate.pass(&m).await;
                if net.gate.down.lock().contains(&addr) {
                    return; // connection cut
                }
                match fault {
                    Some(Fault::DropRequest) => return,
                    Some(Fault::DropReply) => {
                        s.exec(id, &c);
                        return;
                    }
                    Some(Fault::Duplicate) => {
                        s.exec(id, &c);
                    }
                    Some(f @ (Fault::DelayShort | Fault::DelayLong)) => {
                        let (s2, c2) = (s.clone(), c.clone());
                        tokio::spawn(async move {
                            tokio::time::sleep(f.delay().unwrap_or_default()).await;
                            s2.exec(id, &c2);
                        });
                        return;
                    }
                    None => {}
                }
                let r = s.exec(id, &c);
                if rep_tx.unbounded_send(r).is_err() {
                    return;
                }
            }
        }
        Target::Proxy(p) => {
            let session = p.new_session();
            let mut pending = VecDeque::new();
            loop {
                if p.dead.load(Ordering::SeqCst) || net.gate.down.lock().contains(&addr) {
                    return;
                }
                if pending.is_empty() {
                    match req_rx.next().await {
                        None => return,
                        Some(c) => {
                            let m = Msg { detail: detail_of(&c), to: addr.clone(), kind: kind_of(&c), conn: id, is_reply: false };
                            let fault = net.gate.pass(&m).await;
                            if p.dead.load(Ordering::SeqCst) || net.gate.down.lock().contains(&addr) {
                                return;
                            }
                            match fault {
                                Some(Fault::DropRequest) => return,
                                Some(Fault::DropReply) => {
                                    let _ = session_cmd(&session, &c).await;
                                    return;
                                }
                                Some(Fault::Duplicate) => {
                                    let _ = session_cmd(&session, &c).await;
                                }
                                Some(f @ (Fault::DelayShort | Fault::DelayLong)) => {
                                    // still in flight when the caller gives up: it lands later, on a connection of its own
                                    let (p2, c2, net2, addr2) = (p.clone(), c.clone(), net.clone(), addr.clone());
                                    tokio::spawn(async move {
                                        tokio::time::sleep(f.delay().unwrap_or_default()).await;
                                        if p2.dead.load(Ordering::SeqCst) || net2.gate.down.lock().contains(&addr2) {
                                            return;
                                        }
                                        net2.gate.mark(&format!("DELAYED-DELIVERY:{}", kind_of(&c2)));
                                        let session = p2.new_session();
                                        let _ = session_cmd(&session, &c2).await;
                                    });
                                    return;
                                }
                                None => {}
                            }
                            let packet = Box::new(RespPacket::from_resp_vec(cmd_to_resp(&c)));
                            pending.push_back(session.handle_cmd(Command::new(packet)));
                        }
                    }
                } else {
                    let front = pending.front_mut().expect("front");
                    tokio::select! {
                        biased;
                        r = front => {
                            pending.pop_front();
                            let resp = match r {
                                Ok(reply) => reply.into_resp_vec(),
                                Err(e) => Resp::Error(format!("Err cmd error {:?}", e).into_bytes()),
                            };
                            if rep_tx.unbounded_send(resp).is_err() {
                                return;
                            }
                        }
                        req = req_rx.next() => {
                            match req {
                                None => {
                                    // peer closed: finish what is pending
                                    while let Some(f) = pending.pop_front() {
                                        let resp = match f.await {
                                            Ok(reply) => reply.into_resp_vec(),
                                            Err(e) => Resp::Error(format!("Err cmd error {:?}", e).into_bytes()),
                                        };
                                        let _ = rep_tx.unbounded_send(resp);
                                    }
                                    return;
                                }
                                Some(c) => {
                                    let m = Msg { detail: detail_of(&c), to: addr.clone(), kind: kind_of(&c), conn: id, is_reply: false };
                                    let fault = net.gate.pass(&m).await;
                                    if matches!(fault, Some(Fault::DropRequest)) {
                                        return;
                                    }
                                    let packet = Box::new(RespPacket::from_resp_vec(cmd_to_resp(&c)));
                                    pending.push_back(session.handle_cmd(Command::new(packet)));
                                }
                            }
                        }
                    }
                }
            }
        }
    }
}

fn refused() -> std::io::Error {
    std::io::Error::new(std::io::ErrorKind::ConnectionRefused, "connection refused (fake net)")
}

impl ConnFactory for Net {
    type Pkt = RespPacket;

    fn create_conn(&self, addr: SocketAddr) -> Pin<Box<dyn Future<Output = CreateConnResult<Self::Pkt>> + Send>> {
        let me = self.me.upgrade();
        let addr = addr.to_string();
        Box::pin(async move {
            let Some(net) = me else { return Err(BackendError::Io(refused())) };
            let Some(conn) = net.open(&addr) else { return Err(BackendError::Io(refused())) };
            let Conn { req_tx, rep_rx } = conn;
            let sink = req_tx
                .with(|p: RespPacket| async move { Ok::<Cmd, mpsc::SendError>(resp_to_cmd(&p.to_resp_vec()).unwrap_or_default()) })
                .sink_map_err(|_| BackendError::Io(std::io::Error::new(std::io::ErrorKind::BrokenPipe, "broken pipe (fake net)")));
            let stream = rep_rx.map(|r| Ok::<RespPacket, BackendError>(RespPacket::from_resp_vec(r)));
            Ok((Box::pin(sink) as _, Box::pin(stream) as _))
        })
    }
}

pub struct NetClient {
    net: Arc<Net>,
    addr: String,
    conn: Option<Conn>,
}

impl RedisClient for NetClient {
    fn execute<'s>(&'s mut self, command: OptionalMulti<Vec<BinSafeStr>>) -> Pin<Box<dyn Future<Output = Result<OptionalMulti<RespVec>, RedisClientError>> + Send + 's>> {
        Box::pin(async move {
            if self.conn.is_none() {
                self.conn = self.net.open(&self.addr);
            }
            let Some(conn) = self.conn.as_mut() else { return Err(RedisClientError::Io(refused())) };
            let (cmds, single) = match command {
                OptionalMulti::Single(c) => (vec![c], true),
                OptionalMulti::Multi(v) => (v, false),
            };
            let n = cmds.len();
            for c in cmds {
                if conn.req_tx.unbounded_send(c).is_err() {
                    self.conn = None;
                    return Err(RedisClientError::Closed);
                }
            }
            let mut replies = vec![];
            for _ in 0..n {
                match conn.rep_rx.next().await {
                    Some(r) => replies.push(r),
                    None => {
                        self.conn = None;
                        return Err(RedisClientError::Closed);
                    }
                }
            }
            if single {
                Ok(OptionalMulti::Single(replies.pop().expect("one reply")))
            } else {
                Ok(OptionalMulti::Multi(replies))
            }
        })
    }
}

impl RedisClientFactory for Net {
    type Client = NetClient;

    fn create_client<'s>(&'s self, address: String) -> Pin<Box<dyn Future<Output = Result<Self::Client, RedisClientError>> + Send + 's>> {
        let me = self.me.upgrade();
        Box::pin(async move {
            let Some(net) = me else { return Err(RedisClientError::InitError) };
            match net.open(&address) {
                Some(conn) => Ok(NetClient { net, addr: address, conn: Some(conn) }),
                None => Err(RedisClientError::Io(refused())),
            }
        })
    }
}

// ---------------------------------------------------------------------------
// World
// ---------------------------------------------------------------------------

pub struct World {
    pub net: Arc<Net>,
}

/// the fake network and the proxies reference each other (proxy -> Net as connection factory,
/// Net -> proxy as target): break the cycle when the world goes away
impl Drop for World {
    fn drop(&mut self) {
        self.net.nodes.lock().clear();
        self.net.conns.lock().clear();
    }
}

pub fn world_runtime() -> tokio::runtime::Runtime {
    tokio::runtime::Builder::new_current_thread().enable_time().start_paused(true).build().expect("runtime")
}

impl World {
    pub fn new() -> World {
        let net = Net::new();
        World { net }
    }

    /// a client connection to a proxy (a fresh session, like a new TCP connection)
    pub fn client(&self, proxy: &str) -> Option<Client> {
        let p = self.net.proxy(proxy)?;
        Some(Client { session: p.new_session(), proxy: p })
    }

    /// send one command to a proxy on a fresh session (admin / probe use)
    pub async fn once(&self, proxy: &str, c: &Cmd) -> RespVec {
        match self.client(proxy) {
            Some(cl) => cl.cmd(c).await,
            None => Resp::Error(b"ERR no such proxy in the world".to_vec()),
        }
    }

    /// let every spawned task run until nothing more happens at the current virtual time,
    /// then advance virtual time by `d`
    pub async fn settle(&self, d: Duration) {
        for _ in 0..8 {
            tokio::task::yield_now().await;
        }
        tokio::time::sleep(d).await;
        for _ in 0..8 {
            tokio::task::yield_now().await;
        }
    }
}

pub struct Client {
    pub session: Session<SharedForwardHandler<Net, Net>>,
    pub proxy: Arc<ProxyNode>,
}

impl Client {
    pub async fn cmd(&self, c: &Cmd) -> RespVec {
        session_cmd(&self.session, c).await
    }
}

/// parse `MOVED <slot> <addr>`
pub fn parse_moved(r: &RespVec) -> Option<(usize, String)> {
    if let Resp::Error(e) = r {
        let s = String::from_utf8_lossy(e);
        let mut it = s.split(' ');
        if it.next()? == "MOVED" {
            let slot = it.next()?.parse().ok()?;
            let addr = it.next()?.to_string();
            return Some((slot, addr));
        }
    }
    None
}

/// send a command starting at `start`, following MOVED up to `max_hops` redirections
pub async fn follow_moved(world: &World, start: &str, c: &Cmd, max_hops: usize) -> (RespVec, Vec<String>) {
    let mut at = start.to_string();
    let mut path = vec![at.clone()];
    loop {
        let r = world.once(&at, c).await;
        match parse_moved(&r) {
            Some((_, addr)) if path.len() <= max_hops => {
                at = addr;
                path.push(at.clone());
            }
            _ => return (r, path),
        }
    }
}
