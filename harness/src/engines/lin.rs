//! Per-key linearizability check (Wing-Gong search with memoisation) against a sequential
//! register-with-delete model, plus the set of admissible final states.
use std::collections::{BTreeSet, HashSet};

pub type State = Option<Vec<u8>>; // None = key absent

#[derive(Debug, Clone, PartialEq, Eq, serde::Serialize, serde::Deserialize)]
pub enum Call {
    Get,
    Set(Vec<u8>),
    SetNx(Vec<u8>),
    Append(Vec<u8>),
    Incr,
    Del,
    Exists,
    /// EXPIRE with a far-away deadline: only observes existence
    Touch,
    /// GETSET: returns the old value
    GetSet(Vec<u8>),
    Strlen,
    /// a one-field hash behaves like a register: HSET f v / HGET f / HDEL f
    HSet(Vec<u8>),
    HGet,
    HDel,
    /// a collection holding at most the one fixed member "m" (set / sorted set): add it ...
    AddMember,
    /// ... remove it by a command that replies the number of removed members (SREM, ZREM, ZREMRANGEBY*, LREM, EXPIREAT in the past, EVAL del)
    RemoveCount,
    /// ... remove it by a command that replies the member or nil (SPOP, ZPOPMIN/MAX -> first element)
    PopMember,
    /// ... empty it by a command that always replies OK (LTRIM 1 0)
    ClearOk,
    /// ... count the members (SCARD, ZCARD, LLEN of a list holding at most one element)
    Card,
}

#[derive(Debug, Clone, PartialEq, Eq)]
pub enum Ret {
    /// value or nil
    Val(State),
    Ok,
    Int(i64),
    /// an error reply / redirect budget exhausted: the effect may have happened at any time
    /// after the invocation, or never
    Unknown,
}

#[derive(Debug, Clone)]
pub struct Event {
    pub id: usize,
    pub call: Call,
    pub ret: Ret,
    /// logical timestamps (a global counter: every invocation and completion gets a fresh value)
    pub invoke: u64,
    pub complete: u64,
    pub who: String,
}

/// apply `call` to `state`; returns (new state, the reply a sequential Redis would give) or None if
/// the call cannot be applied in this state (e.g. INCR on a non-integer: Redis replies an error,
/// which the harness records as Unknown anyway)
fn step(state: &State, call: &Call) -> (State, Ret) {
    match call {
        Call::Get | Call::HGet => (state.clone(), Ret::Val(state.clone())),
        Call::GetSet(v) => (Some(v.clone()), Ret::Val(state.clone())),
        Call::Strlen => (state.clone(), Ret::Int(state.as_ref().map(|v| v.len() as i64).unwrap_or(0))),
        Call::HSet(v) => (Some(v.clone()), Ret::Int(if state.is_some() { 0 } else { 1 })),
        Call::Set(v) => (Some(v.clone()), Ret::Ok),
        Call::SetNx(v) => match state {
            None => (Some(v.clone()), Ret::Int(1)),
            Some(_) => (state.clone(), Ret::Int(0)),
        },
        Call::Append(s) => {
            let mut v = state.clone().unwrap_or_default();
            v.extend_from_slice(s);
            let n = v.len() as i64;
            (Some(v), Ret::Int(n))
        }
        Call::Incr => {
            let cur = match state {
                None => Some(0i64),
                Some(v) => std::str::from_utf8(v).ok().and_then(|s| s.parse::<i64>().ok()),
            };
            match cur {
                Some(n) => (Some((n + 1).to_string().into_bytes()), Ret::Int(n + 1)),
                None => (state.clone(), Ret::Unknown), // error reply, no effect
            }
        }
        Call::Del | Call::HDel | Call::RemoveCount => (None, Ret::Int(if state.is_some() { 1 } else { 0 })),
        Call::AddMember => (Some(b"m".to_vec()), Ret::Int(if state.is_some() { 0 } else { 1 })),
        Call::PopMember => (None, Ret::Val(state.clone())),
        Call::ClearOk => (None, Ret::Ok),
        Call::Card => (state.clone(), Ret::Int(if state.is_some() { 1 } else { 0 })),
        Call::Exists | Call::Touch => (state.clone(), Ret::Int(if state.is_some() { 1 } else { 0 })),
    }
}

pub struct Outcome {
    pub linearizable: bool,
    /// final states reachable by some valid linearization
    pub finals: BTreeSet<State>,
    pub explored: usize,
}

/// `events` of ONE key; `initial` = state before any event
pub fn check(initial: &State, events: &[Event]) -> Outcome {
    let n = events.len();
    assert!(n <= 60, "too many events per key for the bitmask search");
    let mut memo: HashSet<(u64, State)> = HashSet::new();
    let mut finals = BTreeSet::new();
    let mut explored = 0usize;
    // iterative DFS
    let mut stack: Vec<(u64, State)> = vec![(0, initial.clone())];
    let full: u64 = if n == 64 { u64::MAX } else { (1u64 << n) - 1 };
    // events whose outcome is unknown need not be linearized at all
    let optional: u64 = events.iter().enumerate().filter(|(_, e)| e.ret == Ret::Unknown).map(|(i, _)| 1u64 << i).sum();
    while let Some((done, state)) = stack.pop() {
        if !memo.insert((done, state.clone())) {
            continue;
        }
        explored += 1;
        if explored > 2_000_000 {
            // give up: treat as linearizable (inconclusive is never reported as a violation)
            finals.insert(state);
            return Outcome { linearizable: true, finals, explored };
        }
        if done | optional == full {
            finals.insert(state.clone());
        }
        // the earliest completion among the not-yet-linearized events with a known outcome bounds
        // which events may come next (real-time order)
        let min_complete = (0..n)
            .filter(|i| done & (1 << i) == 0 && events[*i].ret != Ret::Unknown)
            .map(|i| events[i].complete)
            .min()
            .unwrap_or(u64::MAX);
        for i in 0..n {
            if done & (1 << i) != 0 {
                continue;
            }
            let e = &events[i];
            if e.invoke > min_complete {
                continue; // some other event completed before this one was invoked
            }
            let (ns, ret) = step(&state, &e.call);
            let ok = match (&e.ret, &ret) {
                (Ret::Unknown, _) => true,
                (a, b) => a == b,
            };
            if ok {
                stack.push((done | (1 << i), ns));
            }
        }
    }
    Outcome { linearizable: !finals.is_empty(), finals, explored }
}
