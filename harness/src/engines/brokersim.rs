//! Engine A: drives the real `MemBrokerService` through generated histories of
//! administrative operations and exposes, after every step, the three observable
//! views (cluster query, per-proxy query, /metadata snapshot) as plain data
//! decoded from the served JSON.
use crate::fw::{pick, Fail, Obs};
use proptest::prelude::*;
use serde::{Deserialize, Serialize};
use serde_json::Value;
use std::collections::{BTreeMap, BTreeSet};
use std::sync::Arc;
use undermoon::broker::{
    JsonFileStorage, JsonMetaReplicator, MemBrokerConfig, MemBrokerService, StorageConfig,
};
use undermoon::common::cluster::MigrationTaskMeta;
use undermoon::common::config::ClusterConfig;

// ---------------------------------------------------------------------------
// Views decoded from served JSON
// ---------------------------------------------------------------------------

#[derive(Debug, Clone, PartialEq, Eq, Hash, Serialize, Deserialize, PartialOrd, Ord)]
pub struct VMeta {
    pub epoch: u64,
    pub src_proxy_address: String,
    pub src_node_address: String,
    pub dst_proxy_address: String,
    pub dst_node_address: String,
}

#[derive(Debug, Clone, PartialEq, Eq, Hash, Serialize, Deserialize, PartialOrd, Ord)]
pub enum VTag {
    Migrating(VMeta),
    Importing(VMeta),
    None,
}

impl VTag {
    pub fn meta(&self) -> Option<&VMeta> {
        match self {
            VTag::Migrating(m) | VTag::Importing(m) => Some(m),
            VTag::None => None,
        }
    }
    pub fn kind(&self) -> &'static str {
        match self {
            VTag::Migrating(_) => "migrating",
            VTag::Importing(_) => "importing",
            VTag::None => "stable",
        }
    }
}

pub type VRanges = Vec<(usize, usize)>;

#[derive(Debug, Clone, PartialEq, Eq, Hash, Serialize, Deserialize, PartialOrd, Ord)]
pub struct VSlotRange {
    pub range_list: VRanges,
    pub tag: VTag,
}

#[derive(Debug, Clone, PartialEq, Eq, Hash, Serialize, Deserialize, PartialOrd, Ord)]
pub struct VReplPeer {
    pub node_address: String,
    pub proxy_address: String,
}

#[derive(Debug, Clone, PartialEq, Eq, Hash, Serialize, Deserialize, PartialOrd, Ord)]
pub struct VRepl {
    pub role: String,
    pub peers: Vec<VReplPeer>,
}

#[derive(Debug, Clone, PartialEq, Eq, Hash, Serialize, Deserialize, PartialOrd, Ord)]
pub struct VNode {
    pub address: String,
    pub proxy_address: String,
    pub slots: Vec<VSlotRange>,
    pub repl: VRepl,
}

impl VNode {
    pub fn is_master(&self) -> bool {
        self.repl.role == "master"
    }
}

#[derive(Debug, Clone, PartialEq, Serialize, Deserialize)]
pub struct VCluster {
    pub name: String,
    pub epoch: u64,
    pub nodes: Vec<VNode>,
    pub config: Value,
}

#[derive(Debug, Clone, PartialEq, Eq, Hash, Serialize, Deserialize, PartialOrd, Ord)]
pub struct VPeerProxy {
    pub proxy_address: String,
    pub slots: Vec<VSlotRange>,
}

#[derive(Debug, Clone, PartialEq, Serialize, Deserialize)]
pub struct VProxy {
    pub cluster_name: Option<String>,
    pub address: String,
    pub epoch: u64,
    pub nodes: Vec<VNode>,
    pub peers: Vec<VPeerProxy>,
    pub cluster_config: Option<Value>,
}

#[derive(Debug, Clone, PartialEq, Eq, Serialize, Deserialize)]
pub struct VMigMetaStore {
    pub epoch: u64,
    pub src_chunk_index: usize,
    pub src_chunk_part: usize,
    pub dst_chunk_index: usize,
    pub dst_chunk_part: usize,
}

#[derive(Debug, Clone, PartialEq, Eq, Serialize, Deserialize)]
pub struct VMigStore {
    pub range_list: VRanges,
    pub is_migrating: bool,
    pub meta: VMigMetaStore,
}

#[derive(Debug, Clone, PartialEq, Eq, Serialize, Deserialize)]
pub struct VChunk {
    pub role_position: String,
    pub stable_slots: [Option<VSlotRange>; 2],
    pub migrating_slots: [Vec<VMigStore>; 2],
    pub proxy_addresses: [String; 2],
    pub hosts: [String; 2],
    pub node_addresses: [String; 4],
}

impl VChunk {
    pub fn has_any_slots(&self) -> bool {
        self.stable_slots.iter().any(|s| s.is_some())
            || self.migrating_slots.iter().any(|m| !m.is_empty())
    }
}

#[derive(Debug, Clone, PartialEq, Serialize, Deserialize)]
pub struct VClusterStore {
    pub epoch: u64,
    pub name: String,
    pub chunks: Vec<VChunk>,
    pub config: Value,
}

impl VClusterStore {
    pub fn is_migrating(&self) -> bool {
        self.chunks
            .iter()
            .any(|c| c.migrating_slots.iter().any(|m| !m.is_empty()))
    }
    pub fn pending_migrations(&self) -> usize {
        self.chunks
            .iter()
            .map(|c| {
                c.migrating_slots
                    .iter()
                    .map(|m| m.iter().filter(|x| x.is_migrating).count())
                    .sum::<usize>()
            })
            .sum()
    }
}

#[derive(Debug, Clone, PartialEq, Eq, Serialize, Deserialize)]
pub struct VProxyResource {
    pub proxy_address: String,
    pub node_addresses: [String; 2],
    pub host: String,
    pub index: usize,
    pub cluster: Option<String>,
}

#[derive(Debug, Clone, PartialEq, Serialize, Deserialize)]
pub struct VStore {
    pub version: String,
    pub global_epoch: u64,
    pub clusters: BTreeMap<String, VClusterStore>,
    pub all_proxies: BTreeMap<String, VProxyResource>,
    pub failed_proxies: BTreeSet<String>,
    pub failures: BTreeMap<String, BTreeMap<String, i64>>,
    pub enable_ordered_proxy: bool,
}

impl VStore {
    /// the snapshot with the global epoch blanked (for "unchanged modulo epoch")
    pub fn without_global_epoch(&self) -> VStore {
        let mut s = self.clone();
        s.global_epoch = 0;
        s
    }
    pub fn free_healthy(&self) -> Vec<&VProxyResource> {
        self.all_proxies
            .values()
            .filter(|p| {
                p.cluster.is_none()
                    && !self.failed_proxies.contains(&p.proxy_address)
                    && !self.failures.contains_key(&p.proxy_address)
            })
            .collect()
    }
    pub fn find_chunk(&self, proxy: &str) -> Option<(&VClusterStore, usize, usize)> {
        for c in self.clusters.values() {
            for (i, ch) in c.chunks.iter().enumerate() {
                for part in 0..2 {
                    if ch.proxy_addresses[part] == proxy {
                        return Some((c, i, part));
                    }
                }
            }
        }
        None
    }
}

#[derive(Debug, Clone, PartialEq, Serialize, Deserialize)]
pub struct Views {
    pub store: VStore,
    pub clusters: BTreeMap<String, VCluster>,
    pub proxies: BTreeMap<String, VProxy>,
    pub infos: BTreeMap<String, VInfo>,
    pub epoch: u64,
    /// result of the broker's own consistency check (true = it found nothing)
    pub broker_check_ok: bool,
}

#[derive(Debug, Clone, PartialEq, Eq, Serialize, Deserialize)]
pub struct VInfo {
    pub name: String,
    pub node_number: usize,
    pub node_number_with_slots: usize,
    pub is_migrating: bool,
}

// ---------------------------------------------------------------------------
// Configuration, operations, generators
// ---------------------------------------------------------------------------

#[derive(Debug, Clone, Serialize, Deserialize)]
pub struct BrokerCfg {
    /// initial number of proxies on each host
    pub hosts: Vec<u8>,
    pub migration_limit: u64,
    pub ordered: bool,
    pub quorum: u64,
    pub ttl: u64,
}

pub const CLUSTER_NAMES: [&str; 4] = ["c0", "c1", "nosuch", "bad name!"];

#[derive(Debug, Clone, Serialize, Deserialize)]
pub enum Op {
    AddProxy { host: u8 },
    RemoveProxy { p: u16 },
    AddCluster { c: u8, nodes: u8 },
    RemoveCluster { c: u8 },
    AddNodes { c: u8, nodes: u8 },
    ScaleUp { c: u8, nodes: u8 },
    Migrate { c: u8 },
    ScaleDown { c: u8, nodes: u8 },
    DeleteFree { c: u8 },
    AutoScale { c: u8, nodes: u8 },
    Commit { c: u8, i: u16, importing: bool },
    CommitStale { c: u8, i: u16, kind: u8 },
    Failover { p: u16 },
    AddFailure { p: u16, reporter: u8 },
    ReAdd { p: u16 },
    Balance { c: u8 },
    Config { c: u8, k: u8, v: u8 },
    GetFailures,
    /// add `1 + k mod max` chunks where max is what the free pool allows
    AddNodesSmart { c: u8, k: u8 },
    /// scale down to a valid smaller size chosen from the current size
    ScaleDownSmart { c: u8, k: u8 },
    /// auto-scale API to a valid size: k even = smaller, odd = larger, k%7==0 = same
    AutoScaleSmart { c: u8, k: u8 },
}

/// An operation with its operands resolved against the state it is applied to.
#[derive(Debug, Clone, Serialize, Deserialize, PartialEq)]
pub enum ROp {
    Skip(String),
    AddProxy { addr: String, nodes: [String; 2], host: String, index: Option<usize> },
    RemoveProxy { addr: String },
    AddCluster { name: String, nodes: usize },
    RemoveCluster { name: String },
    AddNodes { name: String, nodes: usize },
    ScaleUp { name: String, nodes: usize },
    Migrate { name: String },
    ScaleDown { name: String, nodes: usize },
    DeleteFree { name: String },
    AutoScale { name: String, nodes: usize },
    Commit { name: String, slot_range: VSlotRange, stale: Option<String> },
    Failover { addr: String },
    AddFailure { addr: String, reporter: String },
    ReAdd { addr: String, nodes: [String; 2], host: String, index: Option<usize> },
    Balance { name: String },
    Config { name: String, key: String, value: String },
    GetFailures,
}

impl ROp {
    pub fn kind(&self) -> &'static str {
        match self {
            ROp::Skip(_) => "skip",
            ROp::AddProxy { .. } => "add_proxy",
            ROp::RemoveProxy { .. } => "remove_proxy",
            ROp::AddCluster { .. } => "add_cluster",
            ROp::RemoveCluster { .. } => "remove_cluster",
            ROp::AddNodes { .. } => "add_nodes",
            ROp::ScaleUp { .. } => "scale_up_nodes",
            ROp::Migrate { .. } => "migrate_slots",
            ROp::ScaleDown { .. } => "scale_down",
            ROp::DeleteFree { .. } => "delete_free_nodes",
            ROp::AutoScale { .. } => "auto_scale",
            ROp::Commit { stale: None, .. } => "commit",
            ROp::Commit { stale: Some(_), .. } => "commit_stale",
            ROp::Failover { .. } => "failover",
            ROp::AddFailure { .. } => "add_failure",
            ROp::ReAdd { .. } => "re_add_proxy",
            ROp::Balance { .. } => "balance_masters",
            ROp::Config { .. } => "change_config",
            ROp::GetFailures => "get_failures",
        }
    }
    pub fn cluster(&self) -> Option<&str> {
        match self {
            ROp::AddCluster { name, .. }
            | ROp::RemoveCluster { name }
            | ROp::AddNodes { name, .. }
            | ROp::ScaleUp { name, .. }
            | ROp::Migrate { name }
            | ROp::ScaleDown { name, .. }
            | ROp::DeleteFree { name }
            | ROp::AutoScale { name, .. }
            | ROp::Commit { name, .. }
            | ROp::Balance { name }
            | ROp::Config { name, .. } => Some(name),
            _ => None,
        }
    }
}

#[derive(Debug, Clone, Serialize, Deserialize)]
pub struct Case {
    pub cfg: BrokerCfg,
    pub ops: Vec<Op>,
}

pub fn cfg_strategy() -> impl Strategy<Value = BrokerCfg> {
    (
        prop::collection::vec(prop_oneof![3 => 1u8..=4, 1 => 0u8..=1, 1 => 4u8..=7], 2..=6),
        prop_oneof![2 => Just(0u64), 2 => Just(1u64), 1 => Just(2u64), 1 => Just(3u64)],
        prop::bool::weighted(0.15),
        1u64..=3,
    )
        .prop_map(|(hosts, migration_limit, ordered, quorum)| BrokerCfg {
            hosts,
            migration_limit,
            ordered,
            quorum,
            ttl: 3600,
        })
}

fn cl() -> impl Strategy<Value = u8> {
    prop_oneof![12 => Just(0u8), 3 => Just(1u8), 1 => Just(2u8), 1 => Just(3u8)]
}

fn nodes4() -> impl Strategy<Value = u8> {
    // mostly valid multiples of 4, sometimes odd values / zero / large
    prop_oneof![10 => (1u8..=6).prop_map(|c| c * 4), 1 => 0u8..=40, 1 => Just(0u8)]
}

pub fn op_strategy() -> impl Strategy<Value = Op> {
    prop_oneof![
        3 => (0u8..8).prop_map(|host| Op::AddProxy { host }),
        1 => any::<u16>().prop_map(|p| Op::RemoveProxy { p }),
        2 => (cl(), nodes4()).prop_map(|(c, nodes)| Op::AddCluster { c, nodes }),
        1 => (prop_oneof![1 => Just(0u8), 3 => Just(1u8), 1 => Just(2u8)]).prop_map(|c| Op::RemoveCluster { c }),
        1 => (cl(), nodes4()).prop_map(|(c, nodes)| Op::AddNodes { c, nodes }),
        3 => (cl(), any::<u8>()).prop_map(|(c, k)| Op::AddNodesSmart { c, k }),
        1 => (cl(), nodes4()).prop_map(|(c, nodes)| Op::ScaleUp { c, nodes }),
        4 => cl().prop_map(|c| Op::Migrate { c }),
        1 => (cl(), nodes4()).prop_map(|(c, nodes)| Op::ScaleDown { c, nodes }),
        3 => (cl(), any::<u8>()).prop_map(|(c, k)| Op::ScaleDownSmart { c, k }),
        2 => cl().prop_map(|c| Op::DeleteFree { c }),
        12 => (cl(), any::<u16>(), any::<bool>()).prop_map(|(c, i, importing)| Op::Commit { c, i, importing }),
        2 => (cl(), any::<u16>(), 0u8..5).prop_map(|(c, i, kind)| Op::CommitStale { c, i, kind }),
        5 => any::<u16>().prop_map(|p| Op::Failover { p }),
        2 => (any::<u16>(), 0u8..4).prop_map(|(p, reporter)| Op::AddFailure { p, reporter }),
        2 => any::<u16>().prop_map(|p| Op::ReAdd { p }),
        2 => cl().prop_map(|c| Op::Balance { c }),
        2 => (cl(), 0u8..7, 0u8..6).prop_map(|(c, k, v)| Op::Config { c, k, v }),
        1 => Just(Op::GetFailures),
    ]
}

/// ops that may be interleaved with the commits of a running migration
fn interleave_op() -> impl Strategy<Value = Op> {
    prop_oneof![
        10 => (any::<u16>(), any::<bool>()).prop_map(|(i, importing)| Op::Commit { c: 0, i, importing }),
        3 => any::<u16>().prop_map(|p| Op::Failover { p }),
        1 => Just(Op::Balance { c: 0 }),
        1 => (any::<u16>(), 0u8..4).prop_map(|(p, reporter)| Op::AddFailure { p, reporter }),
        1 => any::<u16>().prop_map(|p| Op::ReAdd { p }),
        1 => (any::<u16>(), 0u8..5).prop_map(|(i, kind)| Op::CommitStale { c: 0, i, kind }),
        1 => op_strategy(),
    ]
}

/// A segment is a short purposeful sub-history (kept as separate ops so that
/// shrinking can still delete each of them).
fn segment_strategy(auto_scale: bool) -> BoxedStrategy<Vec<Op>> {
    let scale_out = (any::<u8>(), prop::collection::vec(interleave_op(), 0..10), any::<bool>()).prop_map(
        |(k, mut inter, fo_before)| {
            let mut v = vec![Op::AddNodesSmart { c: 0, k }];
            if fo_before {
                v.push(Op::Failover { p: (k as u16) << 7 });
            }
            v.push(Op::Migrate { c: 0 });
            v.append(&mut inter);
            v
        },
    );
    let scale_in = (any::<u8>(), prop::collection::vec(interleave_op(), 0..10), any::<bool>()).prop_map(
        |(k, mut inter, del)| {
            let mut v = vec![Op::ScaleDownSmart { c: 0, k }];
            v.append(&mut inter);
            if del {
                v.push(Op::DeleteFree { c: 0 });
            }
            v
        },
    );
    let single = op_strategy().prop_map(|o| vec![o]);
    if auto_scale {
        let auto = (any::<u8>(), prop::collection::vec(interleave_op(), 0..8)).prop_map(|(k, mut inter)| {
            let mut v = vec![Op::AutoScaleSmart { c: 0, k }];
            v.append(&mut inter);
            v
        });
        prop_oneof![6 => single, 2 => scale_out, 2 => scale_in, 1 => auto].boxed()
    } else {
        prop_oneof![6 => single, 2 => scale_out, 2 => scale_in].boxed()
    }
}

pub fn case_strategy(max_segments: usize) -> impl Strategy<Value = Case> {
    (
        cfg_strategy(),
        // prelude: most histories start by creating a cluster
        prop_oneof![5 => (1u8..=4).prop_map(|c| vec![Op::AddCluster { c: 0, nodes: c * 4 }]), 1 => Just(vec![])],
        any::<bool>().prop_flat_map(move |auto| prop::collection::vec(segment_strategy(auto), 0..=max_segments)),
    )
        .prop_map(|(cfg, mut pre, segs)| {
            for mut s in segs {
                pre.append(&mut s);
            }
            Case { cfg, ops: pre }
        })
}

/// Bounded-exhaustive histories (small scope): every sequence of `len` operations over a reduced
/// alphabet of 15 operations, after a fixed prelude that creates a 4-node cluster on a
/// 3+3+2-proxy layout, for migration_limit 0 and 1.
pub const ENUM_ALPHABET: usize = 15;

pub fn enum_op(i: usize) -> Op {
    match i {
        0 => Op::AddNodes { c: 0, nodes: 4 },
        1 => Op::AddNodes { c: 0, nodes: 8 },
        2 => Op::Migrate { c: 0 },
        3 => Op::Commit { c: 0, i: 0, importing: false },
        4 => Op::Commit { c: 0, i: 65535, importing: true },
        5 => Op::ScaleDown { c: 0, nodes: 4 },
        6 => Op::DeleteFree { c: 0 },
        7 => Op::Failover { p: 0 },
        8 => Op::Failover { p: 30000 },
        9 => Op::Failover { p: 65535 },
        10 => Op::Balance { c: 0 },
        11 => Op::Config { c: 0, k: 0, v: 1 },
        12 => Op::ReAdd { p: 0 },
        13 => Op::CommitStale { c: 0, i: 0, kind: 0 },
        _ => Op::AddProxy { host: 2 },
    }
}

pub fn enumerated_cases(len: usize) -> Vec<Case> {
    let mut out = vec![];
    let total = ENUM_ALPHABET.pow(len as u32);
    for limit in [0u64, 1] {
        for code in 0..total {
            let mut c = code;
            let mut ops = vec![Op::AddCluster { c: 0, nodes: 4 }];
            for _ in 0..len {
                ops.push(enum_op(c % ENUM_ALPHABET));
                c /= ENUM_ALPHABET;
            }
            out.push(Case { cfg: BrokerCfg { hosts: vec![3, 3, 2], migration_limit: limit, ordered: false, quorum: 1, ttl: 60 }, ops });
        }
    }
    out
}

pub const RULE_ENUM: &str = "[enumerated] small-scope exhaustive: every sequence of N operations (N = 3 quick, 4 thorough) over a reduced alphabet of 15 operations {add 1 chunk, add 2 chunks, migrate, commit first pending (source report), commit last pending (destination report), scale down to 4, delete free nodes, fail over first/middle/last proxy, balance masters, config change, re-register first proxy, stale commit, add proxy} after creating a 4-node cluster on a 3+3+2-proxy layout, for migration_limit 0 and 1; same oracle as the generated histories, evaluated after every step";

// ---------------------------------------------------------------------------
// The simulator
// ---------------------------------------------------------------------------

pub fn http_client() -> reqwest::Client {
    static C: std::sync::OnceLock<reqwest::Client> = std::sync::OnceLock::new();
    C.get_or_init(reqwest::Client::new).clone()
}

pub struct Sim {
    pub rt: tokio::runtime::Runtime,
    pub svc: Arc<MemBrokerService>,
    pub cfg: BrokerCfg,
    /// next free proxy ordinal per host
    next_on_host: BTreeMap<u8, u32>,
    next_index: usize,
    /// every task that was successfully committed so far
    pub committed: Vec<(String, VSlotRange)>,
}

pub fn host_name(h: u8) -> String {
    format!("host{}", h)
}

pub fn proxy_addr(h: u8, n: u32) -> (String, [String; 2]) {
    // loopback addresses: nothing listens there, connection attempts are refused at once
    let ip = format!("127.{}.{}.{}", 10 + h, n / 200, 1 + n % 200);
    (
        format!("{}:7000", ip),
        [format!("{}:7001", ip), format!("{}:7002", ip)],
    )
}

pub fn broker_config(cfg: &BrokerCfg) -> MemBrokerConfig {
    MemBrokerConfig {
        address: "127.0.0.1:0".into(),
        failure_ttl: cfg.ttl,
        failure_quorum: cfg.quorum,
        migration_limit: cfg.migration_limit,
        recover_from_meta_file: false,
        meta_filename: "/nonexistent/umverif-meta".into(),
        auto_update_meta_file: false,
        update_meta_file_interval: None,
        replica_addresses: Arc::new(arc_swap::ArcSwap::new(Arc::new(vec![]))),
        sync_meta_interval: None,
        enable_ordered_proxy: cfg.ordered,
        storage: StorageConfig::Memory,
        debug: false,
    }
}

pub fn new_service(cfg: &BrokerCfg, last: Option<Value>) -> Result<MemBrokerService, String> {
    let config = broker_config(cfg);
    let persistence = Arc::new(JsonFileStorage::new(config.meta_filename.clone()));
    let replicator = Arc::new(JsonMetaReplicator::new(
        config.replica_addresses.clone(),
        http_client(),
    ));
    let last = match last {
        None => None,
        Some(v) => Some(serde_json::from_value(v).map_err(|e| format!("snapshot decode: {}", e))?),
    };
    MemBrokerService::new(config, ClusterConfig::default(), persistence, replicator, last)
        .map_err(|e| e.to_string())
}

pub fn new_runtime() -> tokio::runtime::Runtime {
    tokio::runtime::Builder::new_current_thread()
        .enable_all()
        .start_paused(true)
        .build()
        .expect("runtime")
}

fn to_slot_range(v: &VSlotRange) -> undermoon::common::cluster::SlotRange {
    serde_json::from_value(serde_json::to_value(v).expect("ser")).expect("VSlotRange -> SlotRange")
}

pub fn task_meta(name: &str, sr: &VSlotRange) -> Option<MigrationTaskMeta> {
    let v = serde_json::json!({"cluster_name": name, "slot_range": sr});
    serde_json::from_value(v).ok()
}

impl Sim {
    pub fn new(cfg: &BrokerCfg) -> Sim {
        let rt = new_runtime();
        let svc = Arc::new(new_service(cfg, None).expect("new service"));
        let mut sim = Sim {
            rt,
            svc,
            cfg: cfg.clone(),
            next_on_host: BTreeMap::new(),
            next_index: 0,
            committed: vec![],
        };
        for (h, n) in cfg.hosts.clone().iter().enumerate() {
            for _ in 0..*n {
                let rop = sim.new_proxy_rop(h as u8);
                let _ = sim.apply(&rop);
            }
        }
        sim
    }

    /// restart from a snapshot (production restart path)
    pub fn restart_from(&mut self, snapshot: Value) -> Result<(), String> {
        let svc = new_service(&self.cfg, Some(snapshot))?;
        self.svc = Arc::new(svc);
        Ok(())
    }

    pub fn new_proxy_rop(&mut self, h: u8) -> ROp {
        let n = self.next_on_host.entry(h).or_insert(0);
        let (addr, nodes) = proxy_addr(h, *n);
        *n += 1;
        let index = if self.cfg.ordered {
            let i = self.next_index;
            self.next_index += 1;
            Some(i)
        } else {
            None
        };
        ROp::AddProxy { addr, nodes, host: host_name(h), index }
    }

    pub fn snapshot_json(&self) -> Value {
        let store = self.rt.block_on(self.svc.get_all_data()).expect("get_all_data");
        serde_json::to_value(&store).expect("store json")
    }

    pub fn views(&self) -> Views {
        let sj = self.snapshot_json();
        let store: VStore = serde_json::from_value(sj).expect("VStore decode");
        let mut clusters = BTreeMap::new();
        for name in store.clusters.keys() {
            let c = self
                .rt
                .block_on(self.svc.get_cluster_by_name(name))
                .expect("get_cluster_by_name");
            if let Some(c) = c {
                let v: VCluster =
                    serde_json::from_value(serde_json::to_value(&c).expect("ser")).expect("VCluster");
                clusters.insert(name.clone(), v);
            }
        }
        let mut proxies = BTreeMap::new();
        for addr in store.all_proxies.keys() {
            let p = self
                .rt
                .block_on(self.svc.get_proxy_by_address(addr))
                .expect("get_proxy_by_address");
            if let Some(p) = p {
                let v: VProxy =
                    serde_json::from_value(serde_json::to_value(&p).expect("ser")).expect("VProxy");
                proxies.insert(addr.clone(), v);
            }
        }
        let mut infos = BTreeMap::new();
        for name in store.clusters.keys() {
            if let Ok(Some(i)) = self.rt.block_on(self.svc.get_cluster_info_by_name(name)) {
                let v: VInfo = serde_json::from_value(serde_json::to_value(&i).expect("ser")).expect("VInfo");
                infos.insert(name.clone(), v);
            }
        }
        let epoch = self.rt.block_on(self.svc.get_epoch()).expect("get_epoch");
        let broker_check_ok = matches!(self.rt.block_on(self.svc.check_metadata()), Ok(None));
        Views { store, clusters, proxies, infos, epoch, broker_check_ok }
    }

    /// Resolve the operands of `op` against the current state.
    pub fn resolve(&mut self, op: &Op, pre: &Views) -> ROp {
        let cname = |c: u8| CLUSTER_NAMES[(c as usize).min(3)].to_string();
        let all: Vec<&String> = pre.store.all_proxies.keys().collect();
        match op {
            Op::AddProxy { host } => self.new_proxy_rop(*host),
            Op::RemoveProxy { p } => {
                if all.is_empty() {
                    return ROp::RemoveProxy { addr: "127.9.9.9:7000".into() };
                }
                ROp::RemoveProxy { addr: all[pick(*p, all.len())].clone() }
            }
            Op::AddCluster { c, nodes } => ROp::AddCluster { name: cname(*c), nodes: *nodes as usize },
            Op::RemoveCluster { c } => ROp::RemoveCluster { name: cname(*c) },
            Op::AddNodes { c, nodes } => ROp::AddNodes { name: cname(*c), nodes: *nodes as usize },
            Op::ScaleUp { c, nodes } => ROp::ScaleUp { name: cname(*c), nodes: *nodes as usize },
            Op::Migrate { c } => ROp::Migrate { name: cname(*c) },
            Op::ScaleDown { c, nodes } => ROp::ScaleDown { name: cname(*c), nodes: *nodes as usize },
            Op::DeleteFree { c } => ROp::DeleteFree { name: cname(*c) },
            Op::AutoScale { c, nodes } => ROp::AutoScale { name: cname(*c), nodes: *nodes as usize },
            Op::Commit { c, i, importing } => {
                let name = cname(*c);
                let Some(cl) = pre.clusters.get(&name) else {
                    return ROp::Skip(format!("commit: no cluster {}", name));
                };
                // what a proxy would report: tasks visible in the served (limited) view
                let mig: Vec<&VSlotRange> = cl
                    .nodes
                    .iter()
                    .flat_map(|n| n.slots.iter())
                    .filter(|s| matches!(s.tag, VTag::Migrating(_)))
                    .collect();
                if mig.is_empty() {
                    return ROp::Skip("commit: nothing migrating".into());
                }
                let sr = mig[pick(*i, mig.len())];
                let sr = if *importing {
                    VSlotRange {
                        range_list: sr.range_list.clone(),
                        tag: VTag::Importing(sr.tag.meta().expect("meta").clone()),
                    }
                } else {
                    sr.clone()
                };
                ROp::Commit { name, slot_range: sr, stale: None }
            }
            Op::CommitStale { c, i, kind } => {
                let name = cname(*c);
                let pending: Vec<VSlotRange> = pre
                    .clusters
                    .get(&name)
                    .map(|cl| {
                        cl.nodes
                            .iter()
                            .flat_map(|n| n.slots.iter())
                            .filter(|s| matches!(s.tag, VTag::Migrating(_)))
                            .cloned()
                            .collect()
                    })
                    .unwrap_or_default();
                match kind {
                    0 => {
                        let old: Vec<&(String, VSlotRange)> =
                            self.committed.iter().filter(|(n, _)| *n == name).collect();
                        if old.is_empty() {
                            return ROp::Skip("commit_stale: nothing committed yet".into());
                        }
                        let (_, sr) = old[pick(*i, old.len())];
                        ROp::Commit { name, slot_range: sr.clone(), stale: Some("already-committed".into()) }
                    }
                    1 | 2 => {
                        if pending.is_empty() {
                            return ROp::Skip("commit_stale: nothing pending".into());
                        }
                        let mut sr = pending[pick(*i, pending.len())].clone();
                        if let VTag::Migrating(m) = &mut sr.tag {
                            if *kind == 1 {
                                m.epoch = m.epoch.saturating_sub(1);
                            } else {
                                m.epoch += 1;
                            }
                        }
                        ROp::Commit { name, slot_range: sr, stale: Some("wrong-epoch".into()) }
                    }
                    3 => {
                        if pending.is_empty() {
                            return ROp::Skip("commit_stale: nothing pending".into());
                        }
                        let mut sr = pending[pick(*i, pending.len())].clone();
                        // a foreign range list: shrink the last range by one slot or shift it
                        if let Some(last) = sr.range_list.last_mut() {
                            if last.1 > last.0 {
                                last.1 -= 1;
                            } else if last.0 > 0 {
                                last.0 -= 1;
                            } else {
                                last.1 += 1;
                            }
                        }
                        ROp::Commit { name, slot_range: sr, stale: Some("foreign-range".into()) }
                    }
                    _ => {
                        if pending.is_empty() {
                            return ROp::Skip("commit_stale: nothing pending".into());
                        }
                        let mut sr = pending[pick(*i, pending.len())].clone();
                        sr.tag = VTag::None;
                        ROp::Commit { name, slot_range: sr, stale: Some("untagged".into()) }
                    }
                }
            }
            Op::Failover { p } => {
                if all.is_empty() {
                    return ROp::Failover { addr: "127.9.9.9:7000".into() };
                }
                // bias towards proxies that are in a cluster: first half of the index
                // space maps onto in-cluster proxies when there are any
                let in_cluster: Vec<&String> = pre
                    .store
                    .all_proxies
                    .iter()
                    .filter(|(_, r)| r.cluster.is_some())
                    .map(|(a, _)| a)
                    .collect();
                if *p < 49152 && !in_cluster.is_empty() {
                    let idx = (*p as usize * in_cluster.len()) / 49152;
                    ROp::Failover { addr: in_cluster[idx.min(in_cluster.len() - 1)].clone() }
                } else {
                    ROp::Failover { addr: all[pick(*p, all.len())].clone() }
                }
            }
            Op::AddFailure { p, reporter } => {
                let addr = if all.is_empty() || *p == u16::MAX {
                    "127.9.9.9:7000".to_string()
                } else {
                    all[pick(*p, all.len())].clone()
                };
                ROp::AddFailure { addr, reporter: format!("reporter{}", reporter) }
            }
            Op::ReAdd { p } => {
                if all.is_empty() {
                    return ROp::Skip("re-add: no proxy".into());
                }
                let r = &pre.store.all_proxies[all[pick(*p, all.len())]];
                // one re-registration in four reports a different host and different node addresses (the
                // machine was re-provisioned): whatever the broker makes of it, its records must stay consistent
                let (nodes, host) = if *p % 4 == 3 {
                    let alt: Vec<String> = r.node_addresses.iter().map(|n| n.replace(":70", ":71")).collect();
                    ([alt[0].clone(), alt[1].clone()], format!("{}-reprovisioned", r.host))
                } else {
                    (r.node_addresses.clone(), r.host.clone())
                };
                ROp::ReAdd { addr: r.proxy_address.clone(), nodes, host, index: if self.cfg.ordered { Some(r.index) } else { None } }
            }
            Op::Balance { c } => ROp::Balance { name: cname(*c) },
            Op::Config { c, k, v } => {
                let keys = [
                    "compression_strategy",
                    "migration_max_migration_time",
                    "migration_max_blocking_time",
                    "migration_scan_interval",
                    "migration_scan_count",
                    "no_such_field",
                    "migration_nosuch",
                ];
                let key = keys[(*k as usize).min(6)].to_string();
                let value = if key == "compression_strategy" {
                    ["disabled", "set_get_only", "allow_all", "bogus", "", "ALLOW_ALL"][(*v as usize).min(5)]
                        .to_string()
                } else {
                    ["0", "1", "1000", "abc", "-1", "18446744073709551615"][(*v as usize).min(5)].to_string()
                };
                ROp::Config { name: cname(*c), key, value }
            }
            Op::GetFailures => ROp::GetFailures,
            Op::AddNodesSmart { c, k } => {
                let free = pre.store.free_healthy().len();
                let max_chunks = (free / 2).max(1).min(4);
                let chunks = 1 + (*k as usize) % max_chunks;
                ROp::AddNodes { name: cname(*c), nodes: chunks * 4 }
            }
            Op::ScaleDownSmart { c, k } => {
                let name = cname(*c);
                let chunks = pre.store.clusters.get(&name).map(|c| c.chunks.len()).unwrap_or(0);
                if chunks < 2 {
                    return ROp::ScaleDown { name, nodes: 4 };
                }
                let target = 1 + (*k as usize) % (chunks - 1);
                ROp::ScaleDown { name, nodes: target * 4 }
            }
            Op::AutoScaleSmart { c, k } => {
                let name = cname(*c);
                let chunks = pre.store.clusters.get(&name).map(|c| c.chunks.len()).unwrap_or(1);
                let free = pre.store.free_healthy().len();
                let target = if *k % 7 == 0 {
                    chunks
                } else if *k % 2 == 0 && chunks >= 2 {
                    1 + (*k as usize / 2) % (chunks - 1)
                } else {
                    chunks + 1 + (*k as usize / 2) % (free / 2).max(1).min(3)
                };
                ROp::AutoScale { name, nodes: target * 4 }
            }
        }
    }

    /// Apply a resolved operation; `Err(code)` = the broker refused it.
    pub fn apply(&mut self, rop: &ROp) -> Result<Value, String> {
        let svc = self.svc.clone();
        let e = |e: undermoon::broker::MetaStoreError| e.to_string();
        match rop {
            ROp::Skip(_) => Ok(Value::Null),
            ROp::AddProxy { addr, nodes, host, index } | ROp::ReAdd { addr, nodes, host, index } => {
                let payload = serde_json::json!({"proxy_address": addr, "nodes": nodes, "host": host, "index": index});
                let payload = serde_json::from_value(payload).expect("payload");
                self.rt.block_on(svc.add_proxy(payload)).map(|_| Value::Null).map_err(e)
            }
            ROp::RemoveProxy { addr } => self.rt.block_on(svc.remove_proxy(addr.clone())).map(|_| Value::Null).map_err(e),
            ROp::AddCluster { name, nodes } => self.rt.block_on(svc.add_cluster(name.clone(), *nodes)).map(|_| Value::Null).map_err(e),
            ROp::RemoveCluster { name } => self.rt.block_on(svc.remove_cluster(name.clone())).map(|_| Value::Null).map_err(e),
            ROp::AddNodes { name, nodes } => self
                .rt
                .block_on(svc.auto_add_nodes(name.clone(), *nodes))
                .map(|n| serde_json::to_value(&n).expect("ser"))
                .map_err(e),
            ROp::ScaleUp { name, nodes } => self
                .rt
                .block_on(svc.auto_scale_up_nodes(name.clone(), *nodes))
                .map(|n| serde_json::to_value(&n).expect("ser"))
                .map_err(e),
            ROp::Migrate { name } => self.rt.block_on(svc.migrate_slots(name.clone())).map(|_| Value::Null).map_err(e),
            ROp::ScaleDown { name, nodes } => self
                .rt
                .block_on(svc.migrate_slots_to_scale_down(name.clone(), *nodes))
                .map(|_| Value::Null)
                .map_err(e),
            ROp::DeleteFree { name } => self.rt.block_on(svc.auto_delete_free_nodes(name.clone())).map(|_| Value::Null).map_err(e),
            ROp::AutoScale { name, nodes } => self
                .rt
                .block_on(svc.auto_scale_node_number(name.clone(), *nodes))
                .map(|_| Value::Null)
                .map_err(e),
            ROp::Commit { name, slot_range, stale } => {
                let Some(task) = task_meta(name, slot_range) else {
                    return Err("INVALID_CLUSTER_NAME(harness)".into());
                };
                let _ = to_slot_range; // keep helper referenced
                let r = self.rt.block_on(svc.commit_migration(task)).map(|_| Value::Null).map_err(e);
                if r.is_ok() && stale.is_none() {
                    // remember as Migrating-tagged form
                    let sr = VSlotRange {
                        range_list: slot_range.range_list.clone(),
                        tag: VTag::Migrating(slot_range.tag.meta().expect("meta").clone()),
                    };
                    self.committed.push((name.clone(), sr));
                }
                r
            }
            ROp::Failover { addr } => self
                .rt
                .block_on(svc.replace_failed_proxy(addr.clone()))
                .map(|p| serde_json::to_value(&p).expect("ser"))
                .map_err(e),
            ROp::AddFailure { addr, reporter } => self
                .rt
                .block_on(svc.add_failure(addr.clone(), reporter.clone()))
                .map(|_| Value::Null)
                .map_err(e),
            ROp::Balance { name } => self.rt.block_on(svc.balance_masters(name.clone())).map(|_| Value::Null).map_err(e),
            ROp::Config { name, key, value } => {
                let mut m = std::collections::HashMap::new();
                m.insert(key.clone(), value.clone());
                self.rt.block_on(svc.change_config(name.clone(), m)).map(|_| Value::Null).map_err(e)
            }
            ROp::GetFailures => self
                .rt
                .block_on(svc.get_failures())
                .map(|f| serde_json::to_value(&f).expect("ser"))
                .map_err(e),
        }
    }
}

/// One executed step of a history, as handed to the oracles.
pub struct Step<'a> {
    pub index: usize,
    pub pre: &'a Views,
    pub rop: &'a ROp,
    pub res: &'a Result<Value, String>,
    pub post: &'a Views,
    pub cfg: &'a BrokerCfg,
}

pub trait Oracle {
    fn init(&mut self, _cfg: &BrokerCfg, _v: &Views, _obs: &mut Obs) -> Result<(), Fail> {
        Ok(())
    }
    fn step(&mut self, st: &Step, obs: &mut Obs) -> Result<(), Fail>;
    fn finish(&mut self, _cfg: &BrokerCfg, _v: &Views, _obs: &mut Obs) -> Result<(), Fail> {
        Ok(())
    }
}

/// Execute a history against a fresh broker, calling the oracle after every step.
pub fn run_history(case: &Case, oracle: &mut dyn Oracle, obs: &mut Obs) -> Result<(), Fail> {
    let mut sim = Sim::new(&case.cfg);
    let mut pre = sim.views();
    oracle.init(&case.cfg, &pre, obs)?;
    for (index, op) in case.ops.iter().enumerate() {
        let rop = sim.resolve(op, &pre);
        let res = sim.apply(&rop);
        let post = sim.views();
        obs.class_n(format!(
            "op:{}:{}",
            rop.kind(),
            if res.is_ok() { "ok" } else { "refused" }
        ));
        let st = Step { index, pre: &pre, rop: &rop, res: &res, post: &post, cfg: &case.cfg };
        if let Err(mut f) = oracle.step(&st, obs) {
            f.message = format!(
                "{}\n  at step {} op={:?} result={:?}",
                f.message,
                index,
                rop,
                res.as_ref().map(|_| "ok")
            );
            return Err(f);
        }
        pre = post;
    }
    oracle.finish(&case.cfg, &pre, obs)
}

