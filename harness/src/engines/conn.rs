//! Engine E: a scripted backend behind the real `ConnFactory` seam. The real RESP codec runs
//! over an in-memory duplex byte stream; the backend side fragments, coalesces, delays,
//! stalls and cuts the reply byte stream at generated positions.
use crate::engines::codec::{ref_parse, RVal, Verdict};
use futures::{Future, SinkExt, StreamExt, TryStreamExt};
use parking_lot::Mutex;
use serde::{Deserialize, Serialize};
use std::net::SocketAddr;
use std::pin::Pin;
use std::sync::atomic::{AtomicUsize, Ordering};
use std::sync::Arc;
use std::time::Duration;
use tokio::io::{AsyncReadExt, AsyncWriteExt};
use tokio_util::codec::Decoder;
use undermoon::protocol::{new_simple_packet_codec, DecodeError, EncodeError, RespCodec, RespPacket};
use undermoon::proxy::backend::{BackendError, ConnFactory, CreateConnResult};

#[derive(Debug, Clone, Serialize, Deserialize, Default)]
pub struct ConnPlan {
    /// the connection attempt fails
    pub refuse: bool,
    /// virtual microseconds before a batch of replies is written
    pub latency_us: u32,
    /// sizes of the write fragments of the reply byte stream (cycled); empty = whole replies
    pub fragments: Vec<u16>,
    /// number of replies gathered into one write
    pub coalesce: u8,
    /// stop replying after this many requests (the connection stays open)
    pub stall_after: Option<u16>,
    /// close the connection after this many bytes of the reply stream were written
    pub cut_after_reply_bytes: Option<u32>,
    /// close the connection right after this many requests were read (before replying to the last)
    pub cut_after_requests: Option<u16>,
    /// stop READING after this many requests (the connection stays open, nothing more is answered):
    /// together with a small pipe this puts the product's write half under back-pressure
    #[serde(default)]
    pub read_stall_after: Option<u16>,
    /// capacity in bytes of the in-memory byte pipe of this connection (0 = 64 KiB)
    #[serde(default)]
    pub pipe: u32,
}

#[derive(Debug, Clone, Serialize, Deserialize, Default)]
pub struct Script {
    /// plan of the i-th connection; later connections use `rest`
    pub conns: Vec<ConnPlan>,
    pub rest: ConnPlan,
    /// 0 = every reply is the 12-byte bulk string `re:<id>`; 1 = the reply's RESP shape depends on
    /// the request (bulk, array with nil/integer members, error, simple string, 9 KiB bulk with CRLFs)
    #[serde(default)]
    pub shapes: u8,
}

/// more connections than any bounded retry policy can need for one case
pub const RUNAWAY_CONNECTIONS: usize = 400;

pub struct ScriptedBackend {
    me: std::sync::Weak<ScriptedBackend>,
    pub script: Script,
    /// (connection index, request as list of byte strings)
    pub log: Mutex<Vec<(usize, Vec<Vec<u8>>)>>,
    pub conn_count: AtomicUsize,
    /// (conn, number of reply bytes written, cut?)
    pub cuts: Mutex<Vec<(usize, usize)>>,
    pub fragmented_inside_packet: AtomicUsize,
    pub read_stalls: AtomicUsize,
}

impl ScriptedBackend {
    pub fn new(script: Script) -> Arc<ScriptedBackend> {
        Arc::new_cyclic(|me| ScriptedBackend { me: me.clone(), script, log: Mutex::new(vec![]), conn_count: AtomicUsize::new(0), cuts: Mutex::new(vec![]), fragmented_inside_packet: AtomicUsize::new(0), read_stalls: AtomicUsize::new(0) })
    }

    /// the reply the backend gives to a request: it names the request (its last argument)
    pub fn reply_for(req: &[Vec<u8>]) -> Vec<u8> {
        let mut v = b"re:".to_vec();
        v.extend_from_slice(req.last().map(|x| x.as_slice()).unwrap_or(b""));
        v
    }

    /// the reply as a RESP value; with `shapes` on, its shape is a function of the request
    pub fn shaped_reply_for(shapes: u8, req: &[Vec<u8>]) -> RVal {
        let name = Self::reply_for(req);
        if shapes == 0 {
            return RVal::Bulk(Some(name));
        }
        let h = name.iter().fold(7usize, |a, b| a.wrapping_mul(31).wrapping_add(*b as usize));
        match if shapes == 2 { 5 } else { h % 7 } {
            0 | 1 => RVal::Bulk(Some(name)),
            2 => RVal::Arr(Some(vec![RVal::Bulk(Some(name)), RVal::Bulk(None), RVal::Int(b"42".to_vec()), RVal::Arr(Some(vec![]))])),
            3 => {
                let mut e = b"ERR backend says ".to_vec();
                e.extend_from_slice(&name);
                RVal::Error(e)
            }
            4 => RVal::Simple(name),
            5 => {
                // larger than the product's 8 KiB connection buffers, with CRLF and RESP type bytes inside
                let mut b = name.clone();
                b.push(b' ');
                while b.len() < 9000 {
                    b.extend_from_slice(b"\r\n$3\r\n*1\r\n-x:");
                }
                RVal::Bulk(Some(b))
            }
            _ => RVal::Arr(Some(vec![RVal::Arr(Some(vec![RVal::Bulk(Some(name))])), RVal::Bulk(Some(vec![]))])),
        }
    }
}

/// the `re:<token>` marker a (shaped) backend reply carries, if it is a backend reply at all
pub fn marker_of(v: &RVal) -> Option<Vec<u8>> {
    fn find(s: &[u8]) -> Option<Vec<u8>> {
        let pos = s.windows(3).position(|w| w == b"re:")?;
        let rest = &s[pos..];
        let end = rest.iter().skip(3).position(|b| !b.is_ascii_alphanumeric()).map(|i| i + 3).unwrap_or(rest.len());
        Some(rest[..end].to_vec())
    }
    match v {
        RVal::Simple(s) | RVal::Error(s) => find(s),
        RVal::Bulk(Some(s)) => find(s),
        RVal::Arr(Some(items)) => items.iter().find_map(marker_of),
        _ => None,
    }
}

fn req_of(v: &RVal) -> Vec<Vec<u8>> {
    match v {
        RVal::Arr(Some(items)) => items
            .iter()
            .map(|x| match x {
                RVal::Bulk(Some(b)) => b.clone(),
                _ => vec![],
            })
            .collect(),
        _ => vec![],
    }
}

async fn serve(be: Arc<ScriptedBackend>, idx: usize, plan: ConnPlan, mut io: tokio::io::DuplexStream) {
    let mut buf: Vec<u8> = vec![];
    let mut nreq = 0usize;
    let mut pending: Vec<Vec<u8>> = vec![];
    let mut written = 0usize;
    let mut frag_i = 0usize;
    let coalesce = plan.coalesce.max(1) as usize;
    loop {
        if let Some(n) = plan.read_stall_after {
            if nreq >= n as usize && pending.is_empty() {
                be.read_stalls.fetch_add(1, Ordering::Relaxed);
                // never read again, never answer again, keep the connection open
                futures::future::pending::<()>().await;
            }
        }
        let mut chunk = [0u8; 4096];
        // flush on idle so that a short pipeline is not kept waiting for a full batch
        let n = if pending.is_empty() {
            io.read(&mut chunk).await
        } else {
            match tokio::time::timeout(Duration::from_micros(300), io.read(&mut chunk)).await {
                Ok(r) => r,
                Err(_) => Ok(usize::MAX), // idle
            }
        };
        let idle = matches!(n, Ok(usize::MAX));
        match n {
            Ok(0) | Err(_) => return,
            Ok(usize::MAX) => {}
            Ok(n) => buf.extend_from_slice(&chunk[..n]),
        }
        while let Verdict::Complete(v, used) = ref_parse(&buf) {
            buf.drain(..used);
            nreq += 1;
            let req = req_of(&v);
            be.log.lock().push((idx, req.clone()));
            if plan.cut_after_requests == Some(nreq as u16) {
                be.cuts.lock().push((idx, written));
                return; // close
            }
            if let Some(s) = plan.stall_after {
                if nreq > s as usize {
                    continue; // read but never answer
                }
            }
            let mut out = vec![];
            ScriptedBackend::shaped_reply_for(be.script.shapes, &req).encode(&mut out);
            pending.push(out);
        }
        if pending.len() >= coalesce || (idle && !pending.is_empty()) {
            if plan.latency_us > 0 {
                tokio::time::sleep(Duration::from_micros(plan.latency_us as u64)).await;
            }
            let bytes: Vec<u8> = pending.drain(..).flatten().collect();
            let mut pos = 0;
            while pos < bytes.len() {
                let size = if plan.fragments.is_empty() { bytes.len() - pos } else { (plan.fragments[frag_i % plan.fragments.len()].max(1) as usize).min(bytes.len() - pos) };
                frag_i += 1;
                let mut end = pos + size;
                if let Some(cut) = plan.cut_after_reply_bytes {
                    let cut = cut as usize;
                    if written + size >= cut {
                        end = pos + cut.saturating_sub(written);
                        if end > pos && io.write_all(&bytes[pos..end]).await.is_err() {
                            return;
                        }
                        let _ = io.flush().await;
                        be.cuts.lock().push((idx, written + (end - pos)));
                        return; // close
                    }
                }
                if end < bytes.len() {
                    be.fragmented_inside_packet.fetch_add(1, Ordering::Relaxed);
                }
                if io.write_all(&bytes[pos..end]).await.is_err() {
                    return;
                }
                let _ = io.flush().await;
                written += end - pos;
                pos = end;
                tokio::task::yield_now().await;
            }
        }
    }
}

impl ConnFactory for ScriptedBackend {
    type Pkt = RespPacket;

    fn create_conn(&self, _addr: SocketAddr) -> Pin<Box<dyn Future<Output = CreateConnResult<Self::Pkt>> + Send>> {
        let idx = self.conn_count.fetch_add(1, Ordering::SeqCst);
        let mut plan = self.script.conns.get(idx).cloned().unwrap_or_else(|| self.script.rest.clone());
        if idx >= RUNAWAY_CONNECTIONS {
            // far beyond any retry budget: stop the reconnect storm so that the case terminates
            plan.refuse = true;
        }
        let me = self.me.upgrade();
        Box::pin(async move {
            if plan.refuse {
                return Err(BackendError::Io(std::io::Error::new(std::io::ErrorKind::ConnectionRefused, "refused (scripted)")));
            }
            let Some(me) = me else { return Err(BackendError::InvalidState) };
            let (client, server) = tokio::io::duplex(if plan.pipe == 0 { 1 << 16 } else { plan.pipe as usize });
            tokio::spawn(serve(me, idx, plan, server));
            // exactly what the product's create_conn builds over a TcpStream
            let (encoder, decoder) = new_simple_packet_codec::<RespPacket, RespPacket>();
            let frame = RespCodec::new(encoder, decoder).framed(client);
            let (writer, reader) = frame.split();
            let writer = writer.sink_map_err(|e| match e {
                EncodeError::Io(err) => BackendError::Io(err),
                EncodeError::NotReady(_) => BackendError::InvalidState,
            });
            let reader = reader.map_err(|e| match e {
                DecodeError::InvalidProtocol => BackendError::InvalidProtocol,
                DecodeError::Io(e) => BackendError::Io(e),
            });
            Ok((Box::pin(writer) as _, Box::pin(reader) as _))
        })
    }
}

