pub mod brokersim;
pub mod codec;
