pub mod brokersim;
pub mod codec;
pub mod world;
