pub mod brokersim;
pub mod codec;
pub mod world;
pub mod migworld;
pub mod lin;
pub mod conn;
pub mod sched;
