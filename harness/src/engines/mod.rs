pub mod brokersim;
