//! A small hand-built migration world on top of engine B: source, destination and an
//! optional bystander proxy with one Redis stand-in each; one slot range migrates from
//! source to destination with the REAL migration code on both sides.
use crate::engines::world::*;
use std::collections::HashMap;
use std::convert::TryFrom;
use std::time::Duration;
use undermoon::common::cluster::{ClusterName, MigrationMeta, Range, RangeList, SlotRange, SlotRangeTag};
use undermoon::common::config::{ClusterConfig, CompressionStrategy};
use undermoon::common::proto::{ClusterMapFlags, ProxyClusterMeta};
use undermoon::protocol::{Resp, RespVec};

pub const SRC: &str = "127.0.0.1:6000";
pub const DST: &str = "127.0.0.2:6000";
pub const BY: &str = "127.0.0.3:6000";
pub const SRC_NODE: &str = "127.0.0.1:7001";
pub const DST_NODE: &str = "127.0.0.2:7001";
pub const BY_NODE: &str = "127.0.0.3:7001";
pub const CLUSTER: &str = "mycluster";

#[derive(Debug, Clone)]
pub struct MigCfg {
    pub opts: ProxyOpts,
    pub bystander: bool,
    /// the migrating range (inclusive), inside the source's slots 0..=src_end
    pub range: (usize, usize),
    pub src_end: usize,
    pub dst_end: usize,
    pub scan_count: u64,
    pub compression: u8,
    pub max_blocking_time: u64,
}

impl Default for MigCfg {
    fn default() -> Self {
        MigCfg {
            opts: ProxyOpts::default(),
            bystander: true,
            range: (2000, 4999),
            src_end: 4999,
            dst_end: 9999,
            scan_count: 16,
            compression: 0,
            max_blocking_time: 10_000,
        }
    }
}

pub struct Mig {
    pub world: World,
    pub cfg: MigCfg,
    pub src_redis: std::sync::Arc<Standin>,
    pub dst_redis: std::sync::Arc<Standin>,
    pub by_redis: Option<std::sync::Arc<Standin>>,
}

fn sr(a: usize, b: usize, tag: SlotRangeTag) -> SlotRange {
    SlotRange { range_list: RangeList::new(vec![Range(a, b)]), tag }
}

impl Mig {
    pub fn meta(&self, epoch: u64) -> MigrationMeta {
        MigrationMeta {
            epoch,
            src_proxy_address: SRC.into(),
            src_node_address: SRC_NODE.into(),
            dst_proxy_address: DST.into(),
            dst_node_address: DST_NODE.into(),
        }
    }

    pub fn cluster_config(&self) -> ClusterConfig {
        let mut c = ClusterConfig::default();
        c.migration_config.scan_count = self.cfg.scan_count;
        c.migration_config.max_blocking_time = self.cfg.max_blocking_time;
        c.compression_strategy = match self.cfg.compression {
            0 => CompressionStrategy::Disabled,
            1 => CompressionStrategy::SetGetOnly,
            _ => CompressionStrategy::AllowAll,
        };
        c
    }

    /// stage 0 = before the migration, 1 = migrating, 2 = committed
    pub fn slots_of(&self, who: &str, stage: u8, mig_epoch: u64) -> Vec<SlotRange> {
        let (a, b) = self.cfg.range;
        let m = self.meta(mig_epoch);
        let mut v = vec![];
        match who {
            SRC => {
                if a > 0 {
                    v.push(sr(0, a - 1, SlotRangeTag::None));
                }
                if b < self.cfg.src_end {
                    v.push(sr(b + 1, self.cfg.src_end, SlotRangeTag::None));
                }
                match stage {
                    0 => v.push(sr(a, b, SlotRangeTag::None)),
                    1 => v.push(sr(a, b, SlotRangeTag::Migrating(m))),
                    _ => {}
                }
            }
            DST => {
                v.push(sr(self.cfg.src_end + 1, self.cfg.dst_end, SlotRangeTag::None));
                match stage {
                    1 => v.push(sr(a, b, SlotRangeTag::Importing(m))),
                    2 => v.push(sr(a, b, SlotRangeTag::None)),
                    _ => {}
                }
            }
            _ => {
                if self.cfg.dst_end < 16383 {
                    v.push(sr(self.cfg.dst_end + 1, 16383, SlotRangeTag::None));
                }
            }
        }
        v
    }

    pub fn members(&self) -> Vec<(&'static str, &'static str)> {
        let mut v = vec![(SRC, SRC_NODE), (DST, DST_NODE)];
        if self.cfg.bystander {
            v.push((BY, BY_NODE));
        }
        v
    }

    pub fn setcluster_cmd(&self, proxy: &str, epoch: u64, stage: u8, mig_epoch: u64) -> Cmd {
        let mut local = HashMap::new();
        let mut peer = HashMap::new();
        for (p, node) in self.members() {
            let slots = self.slots_of(p, stage, mig_epoch);
            if slots.is_empty() {
                continue;
            }
            if p == proxy {
                local.insert(node.to_string(), slots);
            } else {
                peer.insert(p.to_string(), slots);
            }
        }
        // without a bystander the slots above dst_end belong to the destination
        let meta = ProxyClusterMeta::new(
            epoch,
            ClusterMapFlags { force: false, compress: false },
            ClusterName::try_from(CLUSTER).expect("name"),
            local,
            peer,
            self.cluster_config(),
        );
        let mut c = cmd(&["UMCTL", "SETCLUSTER"]);
        c.extend(meta.to_args().into_iter().map(|s| s.into_bytes()));
        c
    }

    pub async fn build(cfg: MigCfg) -> Result<Mig, String> {
        let world = World::new();
        let mut cfg = cfg;
        if !cfg.bystander {
            cfg.dst_end = 16383;
        }
        world.net.add_proxy(SRC, &cfg.opts);
        world.net.add_proxy(DST, &cfg.opts);
        let src_redis = world.net.add_redis(SRC_NODE, 1);
        let dst_redis = world.net.add_redis(DST_NODE, 2);
        let by_redis = if cfg.bystander {
            world.net.add_proxy(BY, &cfg.opts);
            Some(world.net.add_redis(BY_NODE, 3))
        } else {
            None
        };
        let m = Mig { world, cfg, src_redis, dst_redis, by_redis };
        m.install(1, 0, 0, &[SRC, DST, BY]).await?;
        Ok(m)
    }

    /// send SETCLUSTER (given stage) to the listed proxies in that order
    pub async fn install(&self, epoch: u64, stage: u8, mig_epoch: u64, order: &[&str]) -> Result<(), String> {
        for p in order {
            if *p == BY && !self.cfg.bystander {
                continue;
            }
            let c = self.setcluster_cmd(p, epoch, stage, mig_epoch);
            let r = self.world.once(p, &c).await;
            if !matches!(&r, Resp::Simple(s) if s == b"OK") {
                return Err(format!("SETCLUSTER to {} refused: {}", p, show_resp(&r)));
            }
        }
        Ok(())
    }

    pub fn redis_of(&self, proxy: &str) -> std::sync::Arc<Standin> {
        match proxy {
            SRC => self.src_redis.clone(),
            DST => self.dst_redis.clone(),
            _ => self.by_redis.clone().expect("bystander"),
        }
    }

    /// UMCTL INFOMGR on a proxy: the finished migration tasks it reports
    pub async fn finished(&self, proxy: &str) -> Vec<String> {
        match self.world.once(proxy, &cmd(&["UMCTL", "INFOMGR"])).await {
            Resp::Arr(undermoon::protocol::Array::Arr(v)) => v
                .iter()
                .filter_map(|x| match x {
                    Resp::Bulk(undermoon::protocol::BulkStr::Str(s)) => Some(String::from_utf8_lossy(s).to_string()),
                    _ => None,
                })
                .collect(),
            _ => vec![],
        }
    }

    /// wait (virtual time) until `pred` holds, at most `limit`
    pub async fn wait_until(&self, limit: Duration, mut pred: impl FnMut() -> bool) -> bool {
        let step = Duration::from_millis(1);
        let mut waited = Duration::ZERO;
        while waited < limit {
            if pred() {
                return true;
            }
            tokio::time::sleep(step).await;
            waited += step;
        }
        pred()
    }

    pub fn trace_has(&self, kind: &str, to: &str) -> bool {
        self.world.net.gate.trace.lock().iter().any(|(_, t, k)| k == kind && t == to)
    }

    pub fn trace_count(&self, kind: &str, to: &str) -> usize {
        self.world.net.gate.trace.lock().iter().filter(|(_, t, k)| k == kind && t == to).count()
    }
}

pub fn is_ok(r: &RespVec) -> bool {
    matches!(r, Resp::Simple(s) if s == b"OK")
}
