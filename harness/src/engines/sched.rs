//! Engine D: a deterministic cooperative scheduler. The participants are real OS threads,
//! but only one of them runs at any time; control changes hands only at the scheduling
//! points compiled into undermoon under the `verif` feature (hook H3) and at explicit
//! harness points. The schedule is a byte vector: at every point the byte selects which
//! parked thread runs next (after the bytes are used up: round robin, so every run ends).
use parking_lot::{Condvar, Mutex};
use std::sync::Arc;

struct State {
    /// thread currently allowed to run
    current: usize,
    /// threads that have not finished
    live: Vec<bool>,
    schedule: Vec<u8>,
    pos: usize,
    steps: u64,
    rr: usize,
    /// (step, thread, point name) - the executed interleaving
    pub trace: Vec<(u64, usize, &'static str)>,
    pub preemptions: u32,
}

pub struct Sched {
    st: Mutex<State>,
    /// one condition variable per participant: a hand-over wakes exactly the thread that runs next
    cvs: Vec<Condvar>,
    n: usize,
    /// free-running mode: no thread is ever parked, the product's scheduling points are not hooked;
    /// the participants are released together and race for real
    free: bool,
}

pub const MAX_STEPS: u64 = 20_000;

impl Sched {
    pub fn new(n: usize, schedule: Vec<u8>) -> Arc<Sched> {
        Arc::new(Sched {
            st: Mutex::new(State { current: 0, live: vec![true; n], schedule, pos: 0, steps: 0, rr: 0, trace: vec![], preemptions: 0 }),
            cvs: (0..n).map(|_| Condvar::new()).collect(),
            n,
            free: false,
        })
    }

    pub fn new_free(n: usize) -> Arc<Sched> {
        Arc::new(Sched {
            st: Mutex::new(State { current: usize::MAX, live: vec![true; n], schedule: vec![], pos: 0, steps: 0, rr: 0, trace: vec![], preemptions: 0 }),
            cvs: (0..n).map(|_| Condvar::new()).collect(),
            n,
            free: true,
        })
    }

    pub fn is_free(&self) -> bool {
        self.free
    }

    fn choose(st: &mut State, me: usize) -> usize {
        let live: Vec<usize> = (0..st.live.len()).filter(|i| st.live[*i]).collect();
        if live.is_empty() {
            return me;
        }
        let next = if st.pos < st.schedule.len() {
            let b = st.schedule[st.pos] as usize;
            st.pos += 1;
            live[(b * live.len()) >> 8]
        } else {
            st.rr += 1;
            live[st.rr % live.len()]
        };
        if next != me && st.live[me] {
            st.preemptions += 1;
        }
        next
    }

    /// called by thread `me` at a scheduling point
    pub fn point(&self, me: usize, name: &'static str) {
        if self.free {
            std::hint::spin_loop();
            return;
        }
        let mut st = self.st.lock();
        st.steps += 1;
        let step = st.steps;
        if st.trace.len() < 4000 {
            st.trace.push((step, me, name));
        }
        if st.steps > MAX_STEPS {
            // runaway: let everything run freely to the end (reported as inconclusive by the caller)
            st.current = usize::MAX;
            for cv in &self.cvs {
                cv.notify_all();
            }
            return;
        }
        if st.current == usize::MAX {
            return;
        }
        let next = Self::choose(&mut st, me);
        st.current = next;
        if next != me {
            self.cvs[next].notify_one();
        }
        while st.current != me && st.current != usize::MAX {
            self.cvs[me].wait(&mut st);
        }
    }

    /// a participant waits here until it is scheduled for the first time
    pub fn start(&self, me: usize) {
        let mut st = self.st.lock();
        while st.current != me && st.current != usize::MAX {
            self.cvs[me].wait(&mut st);
        }
    }

    pub fn finish(&self, me: usize) {
        let mut st = self.st.lock();
        st.live[me] = false;
        if st.current == usize::MAX {
            return;
        }
        let next = Self::choose(&mut st, me);
        st.current = next;
        if next < self.cvs.len() {
            self.cvs[next].notify_one();
        }
    }

    pub fn runaway(&self) -> bool {
        !self.free && self.st.lock().steps > MAX_STEPS
    }

    pub fn trace(&self) -> Vec<(u64, usize, &'static str)> {
        self.st.lock().trace.clone()
    }

    pub fn steps(&self) -> u64 {
        self.st.lock().steps
    }

    pub fn participants(&self) -> usize {
        self.n
    }
}

/// run the participants under the schedule; each closure gets its thread index
pub fn run(sched: &Arc<Sched>, bodies: Vec<Box<dyn FnOnce(usize) + Send>>) {
    if sched.free {
        let gate = std::sync::Barrier::new(bodies.len());
        std::thread::scope(|scope| {
            for (i, body) in bodies.into_iter().enumerate() {
                let gate = &gate;
                scope.spawn(move || {
                    gate.wait();
                    body(i);
                });
            }
        });
        return;
    }
    std::thread::scope(|scope| {
        for (i, body) in bodies.into_iter().enumerate() {
            let sched = sched.clone();
            scope.spawn(move || {
                let s2 = sched.clone();
                undermoon::common::verif_sched::set_thread_hook(Some(Box::new(move |name| s2.point(i, name))));
                sched.start(i);
                body(i);
                undermoon::common::verif_sched::set_thread_hook(None);
                sched.finish(i);
            });
        }
    });
}
