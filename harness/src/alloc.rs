//! A counting global allocator (over the system allocator). It tracks live and peak bytes
//! and - only when a limit is armed, which only the C16 worker process does - refuses any
//! single allocation request above the limit by reporting it and exiting with code 77, so
//! that "allocation driven by a declared length instead of by received data" becomes an
//! observation instead of an out-of-memory kill.
use std::alloc::{GlobalAlloc, Layout, System};
use std::sync::atomic::{AtomicIsize, AtomicUsize, Ordering};

pub struct CountingAlloc;

pub static LIVE: AtomicIsize = AtomicIsize::new(0);
pub static PEAK: AtomicIsize = AtomicIsize::new(0);
pub static SINGLE_LIMIT: AtomicUsize = AtomicUsize::new(usize::MAX);
/// counting is off unless armed (the shared counters would be a contention point for the
/// 16 worker threads of the ordinary checks)
pub static ARMED: std::sync::atomic::AtomicBool = std::sync::atomic::AtomicBool::new(false);

#[cold]
fn refuse(size: usize) -> ! {
    let msg = format_args_to_buf(size);
    unsafe {
        libc::write(2, msg.0.as_ptr() as *const libc::c_void, msg.1);
        libc::_exit(77);
    }
}

fn format_args_to_buf(size: usize) -> ([u8; 64], usize) {
    // no allocation allowed here
    let mut buf = [0u8; 64];
    let prefix = b"HUGE-ALLOC ";
    buf[..prefix.len()].copy_from_slice(prefix);
    let mut digits = [0u8; 24];
    let mut n = size;
    let mut i = 0;
    if n == 0 {
        digits[0] = b'0';
        i = 1;
    }
    while n > 0 {
        digits[i] = b'0' + (n % 10) as u8;
        n /= 10;
        i += 1;
    }
    let mut pos = prefix.len();
    for j in (0..i).rev() {
        buf[pos] = digits[j];
        pos += 1;
    }
    buf[pos] = b'\n';
    (buf, pos + 1)
}

#[inline]
fn account(size: usize) {
    if !ARMED.load(Ordering::Relaxed) {
        return;
    }
    let live = LIVE.fetch_add(size as isize, Ordering::Relaxed) + size as isize;
    if live > PEAK.load(Ordering::Relaxed) {
        PEAK.fetch_max(live, Ordering::Relaxed);
    }
}

unsafe impl GlobalAlloc for CountingAlloc {
    unsafe fn alloc(&self, layout: Layout) -> *mut u8 {
        if layout.size() > SINGLE_LIMIT.load(Ordering::Relaxed) {
            refuse(layout.size());
        }
        let p = System.alloc(layout);
        if !p.is_null() {
            account(layout.size());
        }
        p
    }
    unsafe fn alloc_zeroed(&self, layout: Layout) -> *mut u8 {
        if layout.size() > SINGLE_LIMIT.load(Ordering::Relaxed) {
            refuse(layout.size());
        }
        let p = System.alloc_zeroed(layout);
        if !p.is_null() {
            account(layout.size());
        }
        p
    }
    unsafe fn dealloc(&self, ptr: *mut u8, layout: Layout) {
        System.dealloc(ptr, layout);
        if ARMED.load(Ordering::Relaxed) {
            LIVE.fetch_sub(layout.size() as isize, Ordering::Relaxed);
        }
    }
    unsafe fn realloc(&self, ptr: *mut u8, layout: Layout, new_size: usize) -> *mut u8 {
        if new_size > SINGLE_LIMIT.load(Ordering::Relaxed) {
            refuse(new_size);
        }
        let p = System.realloc(ptr, layout, new_size);
        if !p.is_null() {
            if new_size >= layout.size() {
                account(new_size - layout.size());
            } else if ARMED.load(Ordering::Relaxed) {
                LIVE.fetch_sub((layout.size() - new_size) as isize, Ordering::Relaxed);
            }
        }
        p
    }
}

/// reset the peak to the current live size and return the baseline
pub fn mark() -> isize {
    let live = LIVE.load(Ordering::Relaxed);
    PEAK.store(live, Ordering::Relaxed);
    live
}

pub fn peak_since(baseline: isize) -> usize {
    (PEAK.load(Ordering::Relaxed) - baseline).max(0) as usize
}
