//! Coverage-guided driver (libFuzzer, /verif/fuzz) for the byte-level properties C15, C16, C17.
//!
//! Target side (`target_*`, linked into the libFuzzer binaries): decodes the fuzzer's bytes into
//! the SAME case type the proptest sub-check uses, runs the SAME semantic oracle, counts what
//! was executed, and on a failure writes a replay file and aborts.
//!
//! Parent side (`run_fuzz`, called by the thorough tiers): starts one fuzzer process per worker
//! with a fixed seed, run count and a fresh corpus (golden seeds from /verif/fuzz/seeds), reads
//! the per-process statistics, and re-decides every crash artifact with the in-process oracle
//! before anything is reported.
use crate::fw::*;
use serde::Serialize;
use serde_json::{json, Value};
use std::collections::BTreeMap;
use std::path::{Path, PathBuf};
use std::sync::{Mutex, Once};

// ---------------------------------------------------------------------------
// target side
// ---------------------------------------------------------------------------

struct TargetState {
    prop: String,
    stats: Stats,
    verif_dir: PathBuf,
}

static STATE: Mutex<Option<TargetState>> = Mutex::new(None);
static INIT: Once = Once::new();

extern "C" fn dump_stats() {
    let Ok(path) = std::env::var("UMVERIF_FUZZ_STATS") else { return };
    if let Ok(g) = STATE.lock() {
        if let Some(st) = g.as_ref() {
            let v = json!({
                "property": st.prop,
                "evaluations": st.stats.evaluations,
                "distinct_nontrivial": st.stats.nontrivial.len(),
                "classes": st.stats.classes,
                "excluded": st.stats.excluded,
                "known_hits": st.stats.known_hits.iter().map(|(k, (w, n))| (k.clone(), json!({"what": w, "count": n}))).collect::<BTreeMap<_, _>>(),
                "samples": st.stats.samples,
            });
            let _ = std::fs::write(path, serde_json::to_string(&v).unwrap_or_default());
        }
    }
}

fn init(prop: &str) {
    INIT.call_once(|| {
        let verif_dir = PathBuf::from(std::env::var("VERIF_DIR").unwrap_or_else(|_| "/verif".into()));
        let findings = Findings::load(&verif_dir);
        set_known_signatures(&findings, prop);
        CASE_THREADS.store(false, std::sync::atomic::Ordering::Relaxed);
        *STATE.lock().unwrap() = Some(TargetState { prop: prop.to_string(), stats: Stats::default(), verif_dir });
        unsafe {
            libc::atexit(dump_stats);
        }
    });
}

/// run one decoded case through its oracle; abort (after saving a replay file) on a violation
fn decide<C: Serialize>(prop: &str, sub: &str, case: &C, check: &dyn Fn(&C, &mut Obs) -> Result<(), Fail>) {
    init(prop);
    let mut obs = Obs::default();
    let res = check(case, &mut obs);
    let h = hash_json(case);
    let mut g = STATE.lock().unwrap();
    let st = g.as_mut().unwrap();
    let sample = if st.stats.samples.len() < 4 && obs.nontrivial { serde_json::to_value(case).ok() } else { None };
    st.stats.absorb(h, obs, sample);
    if let Err(fail) = res {
        let ctx = Ctx {
            prop: prop.to_string(),
            tier: Tier::Thorough,
            seed: 0,
            replay: None,
            verif_dir: st.verif_dir.clone(),
            workers: 1,
            started: std::time::Instant::now(),
            scale: 1.0,
        };
        let path = write_replay(&ctx, sub, case, &fail);
        eprintln!("FUZZ-FAIL property={} sub={} signature={} replay={}\n  {}", prop, sub, fail.signature, path.display(), fail.message);
        drop(g);
        dump_stats();
        std::process::abort();
    }
}

/// C15: strict-RESP differential on the raw bytes + split-read metamorphic relation
pub fn target_c15(data: &[u8]) {
    use crate::props::c15::{check_diff, check_split, DiffCase, SplitCase};
    if data.is_empty() {
        return;
    }
    let (k, bytes) = (data[0], &data[1..]);
    decide("C15", "differential", &DiffCase { bytes: bytes.to_vec() }, &check_diff);
    if !bytes.is_empty() {
        let at = (k as usize * (bytes.len() + 1)) >> 8;
        decide("C15", "split", &SplitCase { bytes: bytes.to_vec(), at }, &check_split);
    }
}

/// C17: arbitrary token lists for UMCTL SETCLUSTER / SETREPL against the documented grammar
pub fn target_c17(data: &[u8]) {
    use crate::props::c17::{check_tokens, TokCase};
    if data.is_empty() {
        return;
    }
    let repl = data[0] & 1 == 1;
    let tokens = tokens_from_bytes(&data[1..]);
    decide("C17", "tokens", &TokCase { repl, tokens }, &check_tokens);
}

/// tokens are separated by spaces; `\xNN`-free: raw bytes are kept (non-UTF-8 tokens are a class)
pub fn tokens_from_bytes(b: &[u8]) -> Vec<Vec<u8>> {
    if b.is_empty() {
        return vec![];
    }
    b.split(|c| *c == b' ').map(|t| t.to_vec()).collect()
}

/// C16: the bytes are what a client sends on one connection (first byte: metadata installed?)
pub fn target_c16(data: &[u8]) {
    use crate::props::c16::{check_in_process, Input, Piece};
    if data.is_empty() {
        return;
    }
    let input = Input::Bytes { with_meta: data[0] & 1 == 1, pieces: vec![Piece::Raw(data[1..].to_vec())] };
    decide("C16", "inputs", &input, &check_in_process);
}

// ---------------------------------------------------------------------------
// parent side
// ---------------------------------------------------------------------------

pub struct FuzzSpec<'a> {
    /// binary name under /verif/target/fuzz/x86_64-unknown-linux-gnu/release/
    pub target: &'a str,
    pub sub: &'a str,
    pub rule: &'a str,
    /// executions per worker process
    pub runs: u64,
    pub max_len: usize,
    /// per-input timeout of libFuzzer in seconds
    pub timeout_s: u32,
    pub malloc_limit_mb: u32,
    /// LeakSanitizer at exit of each input (off for the world target: the harness' own fake network
    /// holds reference cycles that are not the product's)
    pub detect_leaks: bool,
    /// decide a crash artifact with the in-process oracle: Ok(()) = not a violation of this property
    pub confirm: &'a (dyn Fn(&[u8], &mut Obs) -> Result<(), Fail> + Sync),
    /// the artifact as a replayable case of sub-check `sub`
    pub case_of: &'a (dyn Fn(&[u8]) -> Value + Sync),
}

pub fn fuzz_binary(ctx: &Ctx, target: &str) -> Option<PathBuf> {
    let p = ctx.verif_dir.join("target/fuzz/x86_64-unknown-linux-gnu/release").join(target);
    p.exists().then_some(p)
}

/// None = the fuzz binary is not built (the caller notes it in `assumptions`)
pub fn run_fuzz(ctx: &Ctx, findings: &Findings, spec: &FuzzSpec) -> Option<SubReport> {
    let bin = fuzz_binary(ctx, spec.target)?;
    let base = ctx.verif_dir.join("target/fuzz-run").join(format!("{}-{}", spec.target, std::process::id()));
    let _ = std::fs::remove_dir_all(&base);
    let seeds_dir = ctx.verif_dir.join("fuzz/seeds").join(spec.target);
    let dict = ctx.verif_dir.join("fuzz/dict").join(format!("{}.dict", spec.target));
    let workers = ctx.workers.max(1);
    let mut stats = Stats::default();
    let mut violations: Vec<Violation> = vec![];
    let results: Vec<(usize, Option<i32>, PathBuf)> = std::thread::scope(|s| {
        let handles: Vec<_> = (0..workers)
            .map(|w| {
                let dir = base.join(format!("w{}", w));
                let bin = bin.clone();
                let seeds_dir = seeds_dir.clone();
                let dict = dict.clone();
                s.spawn(move || {
                    let corpus = dir.join("corpus");
                    let art = dir.join("artifacts");
                    let _ = std::fs::create_dir_all(&corpus);
                    let _ = std::fs::create_dir_all(&art);
                    // libFuzzer: 0 means "random seed"
                    let seed = (derive_seed(ctx.seed, &ctx.prop, spec.target, w) % 0x7fff_fffe + 1) as u32;
                    let mut cmd = std::process::Command::new(&bin);
                    cmd.arg(&corpus);
                    if seeds_dir.is_dir() {
                        cmd.arg(&seeds_dir);
                    }
                    cmd.arg(format!("-runs={}", spec.runs))
                        .arg(format!("-seed={}", seed))
                        .arg(format!("-max_len={}", spec.max_len))
                        .arg("-len_control=0")
                        .arg(format!("-timeout={}", spec.timeout_s))
                        .arg(format!("-malloc_limit_mb={}", spec.malloc_limit_mb))
                        .arg("-rss_limit_mb=6144")
                        .arg(format!("-detect_leaks={}", spec.detect_leaks as u8))
                        .arg("-print_final_stats=1")
                        .arg(format!("-artifact_prefix={}/", art.display()));
                    if dict.exists() {
                        cmd.arg(format!("-dict={}", dict.display()));
                    }
                    if !spec.detect_leaks {
                        cmd.env("ASAN_OPTIONS", "detect_leaks=0");
                    }
                    cmd.env("UMVERIF_FUZZ_STATS", dir.join("stats.json"))
                        .env("VERIF_DIR", &ctx.verif_dir)
                        .env("RUST_BACKTRACE", "0")
                        .stdout(std::process::Stdio::null())
                        .stderr(std::fs::File::create(dir.join("log.txt")).map(std::process::Stdio::from).unwrap_or_else(|_| std::process::Stdio::null()));
                    let code = cmd.status().ok().and_then(|s| s.code());
                    (w, code, dir)
                })
            })
            .collect();
        handles.into_iter().filter_map(|h| h.join().ok()).collect()
    });
    let mut unconfirmed = 0u64;
    for (_w, code, dir) in &results {
        if let Ok(s) = std::fs::read_to_string(dir.join("stats.json")) {
            if let Ok(v) = serde_json::from_str::<Value>(&s) {
                stats.evaluations += v["evaluations"].as_u64().unwrap_or(0);
                // distinct per process; hashes are not shipped, so count conservatively as the maximum
                // over processes plus nothing (lower bound of the union)
                let n = v["distinct_nontrivial"].as_u64().unwrap_or(0);
                let cur = stats.maxima.entry("fuzz:distinct-nontrivial(lower bound)".into()).or_insert(0);
                if n > *cur {
                    *cur = n;
                }
                if let Some(c) = v["classes"].as_object() {
                    for (k, n) in c {
                        *stats.classes.entry(format!("fuzz:{}", k)).or_insert(0) += n.as_u64().unwrap_or(0);
                    }
                }
                stats.excluded += v["excluded"].as_u64().unwrap_or(0);
                if let Some(k) = v["known_hits"].as_object() {
                    for (sig, e) in k {
                        let ent = stats.known_hits.entry(sig.clone()).or_insert((e["what"].as_str().unwrap_or("").to_string(), 0));
                        ent.1 += e["count"].as_u64().unwrap_or(0);
                    }
                }
                if stats.samples.len() < 4 {
                    if let Some(a) = v["samples"].as_array() {
                        stats.samples.extend(a.iter().take(2).cloned());
                    }
                }
            }
        }
        if *code == Some(0) {
            continue;
        }
        // every artifact is re-decided by the oracle in this process
        let mut arts: Vec<PathBuf> = std::fs::read_dir(dir.join("artifacts")).map(|d| d.filter_map(|e| e.ok().map(|e| e.path())).collect()).unwrap_or_default();
        arts.sort();
        if arts.is_empty() {
            *stats.classes.entry("fuzz:process-ended-abnormally-without-artifact".into()).or_insert(0) += 1;
            unconfirmed += 1;
        }
        for a in arts {
            let Ok(bytes) = std::fs::read(&a) else { continue };
            let mut obs = Obs::default();
            let res = (spec.confirm)(&bytes, &mut obs);
            for (sig, what) in obs.known_hits {
                let e = stats.known_hits.entry(sig).or_insert((what, 0));
                e.1 += 1;
            }
            match res {
                Ok(()) => {
                    // not reproduced by the oracle (e.g. a libFuzzer timeout under load): kept for
                    // inspection, never reported as a violation
                    let keep = ctx.verif_dir.join("replays").join(&ctx.prop).join("unconfirmed");
                    let _ = std::fs::create_dir_all(&keep);
                    let _ = std::fs::copy(&a, keep.join(a.file_name().unwrap_or_default()));
                    *stats.classes.entry("fuzz:artifact-not-confirmed-by-oracle".into()).or_insert(0) += 1;
                    unconfirmed += 1;
                }
                Err(fail) => {
                    if findings.known(&ctx.prop, &fail.signature).is_some() {
                        let e = stats.known_hits.entry(fail.signature.clone()).or_insert((fail.message.clone(), 0));
                        e.1 += 1;
                        continue;
                    }
                    let case = (spec.case_of)(&bytes);
                    let path = write_replay(ctx, spec.sub, &case, &fail);
                    if !violations.iter().any(|v| v.signature == fail.signature) {
                        violations.push(Violation { sub: spec.sub.to_string(), signature: fail.signature.clone(), message: fail.message.clone(), replay: path });
                    }
                }
            }
        }
    }
    if unconfirmed > 0 {
        eprintln!("[{}] fuzz {}: {} abnormal fuzzer exits not confirmed by the oracle (kept under replays/{}/unconfirmed, not a violation)", ctx.prop, spec.target, unconfirmed, ctx.prop);
    }
    // distinct non-trivial: the per-process sets cannot be united without the hashes; use the lower bound
    let lb = stats.maxima.get("fuzz:distinct-nontrivial(lower bound)").copied().unwrap_or(0);
    for i in 0..lb {
        stats.nontrivial.insert(splitmix(i ^ 0xF022));
    }
    let _ = std::fs::remove_dir_all(&base);
    Some(SubReport { name: format!("fuzz:{}", spec.target), rule: spec.rule.to_string(), stats, violations, exhaustive: false })
}

pub fn fuzz_missing_note(target: &str) -> String {
    format!("libFuzzer target '{}' is not built (cargo +nightly fuzz build failed or was not run): the thorough tier ran the in-process generators only", target)
}

pub fn seeds_present(verif_dir: &Path, target: &str) -> bool {
    verif_dir.join("fuzz/seeds").join(target).is_dir()
}
