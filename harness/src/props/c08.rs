//! C08 - every request gets exactly one reply, in order, from its own backend exchange.
use crate::engines::conn::*;
use crate::fw::*;
use crate::{ensure, fail};
use proptest::prelude::*;
use serde::{Deserialize, Serialize};
use std::num::NonZeroUsize;
use std::sync::atomic::{AtomicI64, AtomicU64};
use std::sync::Arc;
use std::time::Duration;
use undermoon::common::batch::{BatchStats, BatchStrategy};
use undermoon::protocol::{Array, BulkStr, Resp, RespPacket, RespVec};
use undermoon::proxy::backend::{BackendNode, CmdTask};
use undermoon::proxy::command::{new_command_pair, Command, CommandError};
use undermoon::proxy::reply::ReplyCommitHandler;
use undermoon::proxy::service::{ClusterNodesVersion, ServerProxyConfig};
use undermoon::proxy::session::CmdCtx;

#[derive(Debug, Clone, Serialize, Deserialize)]
pub struct NodeCase {
    pub script: Script,
    /// bursts: (pause before the burst in virtual microseconds, number of requests)
    pub bursts: Vec<(u32, u8)>,
    pub batch: u8,
    pub backend_timeout_ms: u16,
    /// bytes of padding carried by every request (large requests fill the product's 8 KiB write buffer)
    #[serde(default)]
    pub pad: u16,
    /// batching parameters (flush size, low/high flush interval): see `proxy_config_flush`
    #[serde(default)]
    pub flush: u8,
}

fn plan() -> impl Strategy<Value = ConnPlan> {
    (
        prop::bool::weighted(0.08),
        prop_oneof![3 => Just(0u32), 3 => 0u32..3000, 1 => 0u32..200_000],
        prop::collection::vec(prop_oneof![3 => 1u16..8, 2 => 1u16..64, 1 => 1u16..2], 0..5),
        1u8..5,
        prop_oneof![6 => Just(None), 1 => (0u16..12).prop_map(Some)],
        prop_oneof![4 => Just(None), 3 => (0u32..400).prop_map(Some)],
        prop_oneof![6 => Just(None), 2 => (1u16..20).prop_map(Some)],
        prop_oneof![7 => Just(None), 1 => (0u16..6).prop_map(Some)],
        prop_oneof![3 => Just(0u32), 1 => 16u32..2048],
    )
        .prop_map(|(refuse, latency_us, fragments, coalesce, stall_after, cut_after_reply_bytes, cut_after_requests, read_stall_after, pipe)| ConnPlan {
            refuse,
            latency_us,
            fragments,
            coalesce,
            stall_after,
            cut_after_reply_bytes,
            cut_after_requests,
            read_stall_after,
            pipe,
        })
}

pub fn node_strategy() -> impl Strategy<Value = NodeCase> {
    (
        prop::collection::vec(plan(), 0..4),
        plan(),
        prop::collection::vec((prop_oneof![2 => Just(0u32), 2 => 0u32..2000, 1 => 0u32..100_000], 1u8..12), 1..6),
        0u8..3,
        prop_oneof![Just(50u16), Just(500u16), Just(3000u16)],
        0u8..2,
        prop_oneof![3 => Just(0u16), 1 => 1u16..200, 2 => 1000u16..4000],
        0u8..5,
    )
        .prop_map(|(conns, mut rest, bursts, batch, backend_timeout_ms, shapes, pad, flush)| {
            // the tail plan mostly lets traffic through (or little is learned); in the remaining cases the
            // backend stays down for good after the scripted connections: every request must still be failed
            rest.refuse = rest.refuse && bursts.len() % 2 == 1;
            rest.read_stall_after = None;
            NodeCase { script: Script { conns, rest, shapes }, bursts, batch, backend_timeout_ms, pad, flush }
        })
}

pub fn proxy_config(batch: u8, backend_conn_num: usize, backend_timeout: Duration) -> Arc<ServerProxyConfig> {
    proxy_config_flush(batch, backend_conn_num, backend_timeout, 0)
}

/// `flush` selects the batching parameters: 0 = (4, 200 us, 600 us); otherwise flush size and intervals derived from it
pub fn proxy_config_flush(batch: u8, backend_conn_num: usize, backend_timeout: Duration, flush: u8) -> Arc<ServerProxyConfig> {
    let (flush_size, low_us, high_us) = match flush % 5 {
        0 => (4usize, 200u64, 600u64),
        1 => (1, 50, 100),
        2 => (2, 1000, 5000),
        3 => (64, 200, 600),
        _ => (16, 20, 20000),
    };
    Arc::new(ServerProxyConfig {
        address: "127.0.0.1:6000".into(),
        announce_address: "127.0.0.1:6000".into(),
        announce_host: "127.0.0.1".into(),
        slowlog_len: NonZeroUsize::new(16).expect("nz"),
        slowlog_log_slower_than: AtomicI64::new(50000),
        slowlog_sample_rate: AtomicU64::new(1000),
        thread_number: NonZeroUsize::new(1).expect("nz"),
        backend_conn_num: NonZeroUsize::new(backend_conn_num.max(1)).expect("nz"),
        active_redirection: false,
        max_redirections: None,
        default_redirection_address: None,
        backend_batch_strategy: match batch % 3 {
            0 => BatchStrategy::Disabled,
            1 => BatchStrategy::Fixed,
            _ => BatchStrategy::Dynamic,
        },
        backend_flush_size: NonZeroUsize::new(flush_size).expect("nz"),
        backend_low_flush_interval: Duration::from_micros(low_us),
        backend_high_flush_interval: Duration::from_micros(high_us),
        session_timeout: None,
        backend_timeout,
        password: None,
        command_cluster_nodes_version: ClusterNodesVersion::V1,
    })
}

fn request(id: usize, pad: u16) -> (CmdCtx, undermoon::proxy::command::CmdReplyReceiver) {
    let mut parts = vec![Resp::Bulk(BulkStr::Str(b"ECHO".to_vec()))];
    if pad > 0 {
        parts.push(Resp::Bulk(BulkStr::Str(vec![b'p'; pad as usize])));
    }
    parts.push(Resp::Bulk(BulkStr::Str(format!("id{}", id).into_bytes())));
    let resp: RespVec = Resp::Arr(Array::Arr(parts));
    let cmd = Command::new(Box::new(RespPacket::from_resp_vec(resp)));
    let (sender, receiver) = new_command_pair(&cmd);
    (CmdCtx::new(cmd, sender, 1, false), receiver)
}

fn shape_name(v: &crate::engines::codec::RVal) -> &'static str {
    use crate::engines::codec::RVal;
    match v {
        RVal::Simple(_) => "simple",
        RVal::Error(_) => "error",
        RVal::Int(_) => "int",
        RVal::Bulk(Some(b)) if b.len() > 8192 => "bulk>8KiB",
        RVal::Bulk(_) => "bulk",
        RVal::Arr(_) => "array",
    }
}

async fn run_node(case: &NodeCase, obs: &mut Obs) -> Result<(), Fail> {
    let be = ScriptedBackend::new(case.script.clone());
    let config = proxy_config_flush(case.batch, 1, Duration::from_millis(case.backend_timeout_ms as u64), case.flush);
    let (node, fut) = BackendNode::new("127.0.0.1:7001".to_string(), Arc::new(ReplyCommitHandler), config, be.clone(), Arc::new(BatchStats::default()));
    let handle = tokio::spawn(fut);
    let mut receivers = vec![];
    let mut id = 0usize;
    for (pause, n) in &case.bursts {
        tokio::time::sleep(Duration::from_micros(*pause as u64)).await;
        for _ in 0..*n {
            let (ctx, rx) = request(id, case.pad);
            match node.send(ctx) {
                Ok(()) => {}
                Err(e) => {
                    // what RecoverableBackendNode does when the connection is marked failed
                    e.into_inner().set_resp_result(Ok(Resp::Error(b"BACKEND_CONNECTION_ERROR (harness)".to_vec())));
                }
            }
            receivers.push((id, rx));
            id += 1;
        }
    }
    let total = receivers.len();
    // a backend that accepts connections and drops them must not be retried without bound
    let runaway = |be: &ScriptedBackend| be.conn_count.load(std::sync::atomic::Ordering::SeqCst) >= RUNAWAY_CONNECTIONS;
    let mut ok_replies = 0;
    let mut err_replies = 0;
    for (id, rx) in receivers {
        let r = tokio::time::timeout(Duration::from_secs(120), rx).await;
        let r = match r {
            Ok(r) => r,
            Err(_) => fail!(
                "C08:request-without-reply",
                "request id{} (of {}) got neither a reply nor an error within 120 virtual seconds; connections opened: {}, cuts: {:?}",
                id,
                total,
                be.conn_count.load(std::sync::atomic::Ordering::SeqCst),
                be.cuts.lock()
            ),
        };
        match r {
            Ok(reply) => {
                let got = crate::engines::codec::RVal::from_resp(&reply.into_resp_vec());
                let want = format!("re:id{}", id).into_bytes();
                match marker_of(&got) {
                    Some(m) => {
                        ensure!(
                            m == want,
                            "C08:reply-of-another-request",
                            "request id{} received the reply of {:?}; connections opened: {}, cuts (conn, reply bytes written): {:?}",
                            id,
                            String::from_utf8_lossy(&m),
                            be.conn_count.load(std::sync::atomic::Ordering::SeqCst),
                            be.cuts.lock()
                        );
                        // the whole reply, not only its marker, must be the one the backend produced
                        let sent = ScriptedBackend::shaped_reply_for(case.script.shapes, &[format!("id{}", id).into_bytes()]);
                        ensure!(got == sent, "C08:reply-altered", "request id{} received a reply that differs from what the backend wrote for it (got {} bytes of shape {:?})", id, got.encoded().len(), shape_name(&got));
                        obs.class(format!("reply-shape:{}", shape_name(&got)));
                        ok_replies += 1;
                    }
                    None => match got {
                        crate::engines::codec::RVal::Error(e) => {
                            if std::env::var("VERIF_DEBUG").is_ok() {
                                eprintln!("id{} -> error reply {:?}", id, String::from_utf8_lossy(&e));
                            }
                            err_replies += 1
                        }
                        other => fail!("C08:unexpected-reply", "request id{} received {:?}", id, other),
                    },
                }
            }
            Err(e) => {
                if std::env::var("VERIF_DEBUG").is_ok() {
                    eprintln!("id{} -> Err({:?})", id, e);
                }
                err_replies += 1
            }
        }
    }
    ensure!(
        !runaway(&be),
        "C08:unbounded-reconnect-retry",
        "{} requests caused {} backend connections (the harness stopped accepting at {}): failed requests are re-sent on new connections without bound instead of being answered with an error after the retry budget; cuts (conn, reply bytes written): {:?}",
        total,
        be.conn_count.load(std::sync::atomic::Ordering::SeqCst),
        RUNAWAY_CONNECTIONS,
        be.cuts.lock().iter().take(6).collect::<Vec<_>>()
    );
    // the backend never sees a request more often than the retry budget allows
    let log = be.log.lock().clone();
    let mut seen = std::collections::BTreeMap::new();
    for (_, req) in &log {
        *seen.entry(req.last().cloned().unwrap_or_default()).or_insert(0usize) += 1;
    }
    for (k, n) in &seen {
        ensure!(*n <= 4, "C08:request-resent-too-often", "request {:?} was written to the backend {} times (retry budget: 3 retries)", String::from_utf8_lossy(k), n);
    }
    let cuts = be.cuts.lock().clone();
    if !cuts.is_empty() {
        obs.class("cut");
        if cuts.iter().any(|(_, w)| *w > 0) && ok_replies > 0 && (err_replies > 0 || be.conn_count.load(std::sync::atomic::Ordering::SeqCst) > 1) {
            obs.nontrivial = true;
            obs.class("cut:inside-reply-stream-with-requests-on-both-sides");
        }
    }
    if be.fragmented_inside_packet.load(std::sync::atomic::Ordering::Relaxed) > 0 {
        obs.nontrivial = true;
        obs.class("fragmentation-inside-a-packet");
    }
    if case.script.conns.iter().any(|p| p.stall_after.is_some()) {
        obs.class("stall");
    }
    if be.read_stalls.load(std::sync::atomic::Ordering::Relaxed) > 0 {
        obs.class("backend-stopped-reading");
        // more request bytes were outstanding than the pipe plus the product's 8 KiB write buffer hold
        let per_req = 30 + case.pad as usize;
        if per_req * total > 8192 + 4096 {
            obs.nontrivial = true;
            obs.class("backend-stopped-reading:write-half-under-back-pressure");
        }
    }
    if err_replies > 0 {
        obs.class("some-requests-answered-with-error");
    }
    if be.conn_count.load(std::sync::atomic::Ordering::SeqCst) > 1 {
        obs.class("reconnected");
    }
    obs.class(format!("batch:{}", case.batch % 3));
    drop(node);
    handle.abort();
    Ok(())
}

pub fn check_node(case: &NodeCase, obs: &mut Obs) -> Result<(), Fail> {
    let rt = crate::engines::world::world_runtime();
    let r = rt.block_on(run_node(case, obs));
    drop(rt);
    r
}

// --- the full stack over real TCP: handle_session -> ForwardHandler -> scripted backend -----

#[derive(Debug, Clone, Serialize, Deserialize)]
pub struct SessionCase {
    pub script: Script,
    /// per request: 0 = GET through the backend, 1 = PING (answered locally), 2 = ECHO (locally)
    pub kinds: Vec<u8>,
    /// fragment sizes for the client's writes
    pub write_fragments: Vec<u16>,
    pub batch: u8,
    pub backend_conn_num: u8,
    /// the client pipelines everything, waits, and only then starts reading; socket buffers are small
    /// and every backend reply is 9 KiB, so the proxy's writes towards the client hit back-pressure
    #[serde(default)]
    pub lazy_reader: bool,
    /// session_timeout of the proxy in milliseconds (0 = none): an idle connection is closed after
    /// it, one with requests in flight must not be
    #[serde(default)]
    pub session_timeout_ms: u16,
    /// the client stays silent for this long after connecting (far shorter than any generated session timeout)
    #[serde(default)]
    pub pause_before_write_ms: u16,
}

pub fn session_strategy() -> impl Strategy<Value = SessionCase> {
    (
        prop::collection::vec(plan(), 0..3),
        plan(),
        prop::collection::vec(prop_oneof![4 => Just(0u8), 1 => Just(1u8), 1 => Just(2u8)], 1..30),
        prop::collection::vec(1u16..40, 0..6),
        0u8..3,
        1u8..4,
        0u8..2,
        prop::bool::weighted(0.25),
        prop_oneof![1 => Just(0u16), 1 => 2000u16..4000],
        prop_oneof![2 => Just(0u16), 1 => 1u16..30],
    )
        .prop_map(|(mut conns, mut rest, kinds, write_fragments, batch, backend_conn_num, shapes, lazy_reader, session_timeout_ms, pause_before_write_ms)| {
            rest.refuse = false;
            // real time: keep latencies short
            for p in conns.iter_mut().chain(std::iter::once(&mut rest)) {
                p.latency_us = p.latency_us.min(3000);
                p.stall_after = None;
                p.read_stall_after = None;
                p.pipe = 0;
            }
            let shapes = if lazy_reader { 2 } else { shapes };
            // a client that stays silent for longer than the session timeout may be disconnected: the
            // lazy reader (150 ms of silence) runs without one
            let session_timeout_ms = if lazy_reader { 0 } else { session_timeout_ms };
            SessionCase { script: Script { conns, rest, shapes }, kinds, write_fragments, batch, backend_conn_num, lazy_reader, session_timeout_ms, pause_before_write_ms }
        })
}

pub fn check_session(case: &SessionCase, obs: &mut Obs) -> Result<(), Fail> {
    // the one clause that depends on real time (premature session timeout) is only believed after
    // three failing attempts (one while shrinking)
    let attempts = if IS_SHRINKING.with(|f| f.get()) { 1 } else { 3 };
    let mut last = Ok(());
    for _ in 0..attempts {
        let mut o = Obs::default();
        last = check_session_once(case, &mut o);
        let retry = matches!(&last, Err(f) if f.signature == "C08:connection-closed-before-session-timeout");
        if !retry {
            *obs = o;
            return last;
        }
    }
    last
}

fn check_session_once(case: &SessionCase, obs: &mut Obs) -> Result<(), Fail> {
    use crate::engines::codec::{ref_parse, RVal, Verdict};
    use crate::engines::world::{cmd, cmd_to_resp, Net};
    let shapes = case.script.shapes;
    use tokio::io::{AsyncReadExt, AsyncWriteExt};
    use undermoon::common::track::TrackedFutureRegistry;
    use undermoon::proxy::executor::SharedForwardHandler;
    use undermoon::proxy::manager::MetaMap;
    use undermoon::proxy::session::{handle_session, Session};
    use undermoon::proxy::slowlog::SlowRequestLogger;
    let rt = tokio::runtime::Builder::new_multi_thread().worker_threads(2).enable_all().build().expect("rt");
    let result: Result<(), Fail> = rt.block_on(async {
        let be = ScriptedBackend::new(case.script.clone());
        let config = proxy_config(case.batch, case.backend_conn_num as usize, Duration::from_millis(300));
        let meta_map = Arc::new(arc_swap::ArcSwap::new(Arc::new(MetaMap::empty())));
        let (stopped, _rx) = futures::channel::mpsc::unbounded();
        let slowlog = Arc::new(SlowRequestLogger::new(config.clone()));
        // the client factory is never used by data commands
        let handler = SharedForwardHandler::new(config.clone(), Net::new(), slowlog.clone(), meta_map, be.clone(), Arc::new(TrackedFutureRegistry::default()), stopped);
        let session = Arc::new(Session::new(1, handler, slowlog, config.clone()));
        let lsock = tokio::net::TcpSocket::new_v4().map_err(|e| Fail::new("harness:bind", e.to_string()))?;
        if case.lazy_reader {
            // inherited by the accepted socket: the proxy's sending side fills up quickly
            let _ = lsock.set_send_buffer_size(4096);
        }
        lsock.bind("127.0.0.1:0".parse().expect("addr")).map_err(|e| Fail::new("harness:bind", e.to_string()))?;
        let listener = lsock.listen(8).map_err(|e| Fail::new("harness:bind", e.to_string()))?;
        let addr = listener.local_addr().map_err(|e| Fail::new("harness:bind", e.to_string()))?;
        let s2 = session.clone();
        let session_timeout_ms = case.session_timeout_ms;
        if session_timeout_ms > 0 {
            obs.class("session-timeout-configured");
        }
        let server = tokio::spawn(async move {
            if let Ok((sock, _)) = listener.accept().await {
                let r = handle_session(s2, sock, if session_timeout_ms == 0 { None } else { Some(Duration::from_millis(session_timeout_ms as u64)) }).await;
                if std::env::var("VERIF_DEBUG").is_ok() {
                    eprintln!("handle_session ended: {:?}", r);
                }
            }
        });
        let csock = tokio::net::TcpSocket::new_v4().map_err(|e| Fail::new("harness:connect", e.to_string()))?;
        if case.lazy_reader {
            let _ = csock.set_recv_buffer_size(4096);
        }
        let mut sock = csock.connect(addr).await.map_err(|e| Fail::new("harness:connect", e.to_string()))?;
        // metadata: the scripted backend owns every slot
        let mut out = vec![];
        let set = cmd(&["UMCTL", "SETCLUSTER", "v2", "1", "NOFLAG", "c", "127.0.0.1:7001", "1", "0-16383"]);
        undermoon::protocol::resp_to_buf(&mut out, &cmd_to_resp(&set)).expect("enc");
        let mut expected: Vec<(u8, Vec<u8>)> = vec![(3, vec![])];
        for (i, k) in case.kinds.iter().enumerate() {
            let c = match k {
                0 => cmd(&["GET", &format!("key{}", i)]),
                1 => cmd(&["PING"]),
                _ => cmd(&["ECHO", &format!("echo{}", i)]),
            };
            undermoon::protocol::resp_to_buf(&mut out, &cmd_to_resp(&c)).expect("enc");
            expected.push((*k, if *k == 0 { format!("re:key{}", i).into_bytes() } else { format!("echo{}", i).into_bytes() }));
        }
        if case.pause_before_write_ms > 0 {
            tokio::time::sleep(Duration::from_millis(case.pause_before_write_ms as u64)).await;
        }
        // write in fragments
        let mut pos = 0;
        let mut fi = 0;
        while pos < out.len() {
            let n = if case.write_fragments.is_empty() { out.len() - pos } else { (case.write_fragments[fi % case.write_fragments.len()] as usize).min(out.len() - pos) };
            fi += 1;
            if let Err(e) = sock.write_all(&out[pos..pos + n]).await {
                if case.session_timeout_ms > 0 {
                    fail!(
                        "C08:connection-closed-before-session-timeout",
                        "session_timeout is {} ms; the client was silent for {} ms after connecting and was still writing its {} requests when the proxy closed the connection ({}): complete requests get no reply",
                        case.session_timeout_ms,
                        case.pause_before_write_ms,
                        expected.len(),
                        e
                    );
                }
                return Err(Fail::new("harness:write", e.to_string()));
            }
            pos += n;
            if fi % 3 == 0 {
                tokio::task::yield_now().await;
            }
        }
        if case.lazy_reader {
            // let the proxy run into the full socket before the first byte is read
            tokio::time::sleep(Duration::from_millis(150)).await;
            obs.class("lazy-reader");
        }
        // read the replies
        let mut buf: Vec<u8> = vec![];
        let mut replies: Vec<RVal> = vec![];
        let mut closed_by_peer = false;
        // (while a failing case is being shrunk a shorter allowance keeps the search affordable)
        let allowance = if IS_SHRINKING.with(|f| f.get()) { 4 } else { 20 };
        let deadline = tokio::time::Instant::now() + Duration::from_secs(allowance);
        while replies.len() < expected.len() {
            let mut chunk = [0u8; 4096];
            let n = match tokio::time::timeout_at(deadline, sock.read(&mut chunk)).await {
                Ok(Ok(0)) | Ok(Err(_)) => {
                    closed_by_peer = true;
                    break;
                }
                Ok(Ok(n)) => n,
                Err(_) => break,
            };
            buf.extend_from_slice(&chunk[..n]);
            while let Verdict::Complete(v, used) = ref_parse(&buf) {
                buf.drain(..used);
                replies.push(v);
            }
        }
        if replies.len() < expected.len() && case.session_timeout_ms > 0 && closed_by_peer {
            fail!(
                "C08:connection-closed-before-session-timeout",
                "session_timeout is {} ms; the client was silent for {} ms after connecting, wrote {} requests and had read {} replies when the proxy closed the connection",
                case.session_timeout_ms,
                case.pause_before_write_ms,
                expected.len(),
                replies.len()
            );
        }
        ensure!(
            replies.len() == expected.len(),
            "C08:missing-replies",
            "{} requests were written on the connection, {} replies came back within {} s (connection still open); lazy reader: {}; backend connections: {}, cuts: {:?}",
            expected.len(),
            replies.len(),
            allowance,
            case.lazy_reader,
            be.conn_count.load(std::sync::atomic::Ordering::SeqCst),
            be.cuts.lock()
        );
        for (i, ((kind, want), got)) in expected.iter().zip(replies.iter()).enumerate() {
            let ok = match (kind, got) {
                (3, RVal::Simple(_)) => true,
                (1, RVal::Simple(s)) => s == b"OK",
                (2, RVal::Bulk(Some(s))) => s == want,
                (0, v) => match marker_of(v) {
                    // a backend reply: it must be the one written for this request, unaltered
                    Some(m) => &m == want && *v == ScriptedBackend::shaped_reply_for(shapes, &[want[3..].to_vec()]),
                    // a failed exchange is answered with an error
                    None => matches!(v, RVal::Error(_)),
                },
                _ => false,
            };
            ensure!(
                ok,
                "C08:reply-out-of-order-or-foreign",
                "reply #{} is {:?}; request #{} was kind {} expecting {:?} (or an error for backend requests); backend connections: {}, cuts: {:?}",
                i,
                got,
                i,
                kind,
                String::from_utf8_lossy(want),
                be.conn_count.load(std::sync::atomic::Ordering::SeqCst),
                be.cuts.lock()
            );
        }
        if !be.cuts.lock().is_empty() {
            obs.class("cut");
            obs.nontrivial = true;
        }
        if be.fragmented_inside_packet.load(std::sync::atomic::Ordering::Relaxed) > 0 || !case.write_fragments.is_empty() {
            obs.class("fragmented");
            obs.nontrivial = true;
        }
        if case.kinds.iter().any(|k| *k != 0) && case.kinds.iter().any(|k| *k == 0) {
            obs.class("local-and-backend-replies-interleaved");
        }
        server.abort();
        Ok(())
    });
    // wait for the runtime's tasks to be dropped: their sockets are closed before the next case starts
    rt.shutdown_timeout(Duration::from_millis(500));
    if let Ok(rd) = std::fs::read_dir("/proc/self/fd") {
        let names: Vec<String> = rd.filter_map(|e| e.ok()).filter_map(|e| std::fs::read_link(e.path()).ok()).map(|p| p.to_string_lossy().split(':').next().unwrap_or("").to_string() + &p.to_string_lossy().chars().filter(|c| *c == '[').count().to_string()).collect();
        if names.len() > 3000 && std::env::var("VERIF_DEBUG_FD").is_ok() {
            let mut h = std::collections::BTreeMap::new();
            for n in &names {
                *h.entry(n.clone()).or_insert(0) += 1;
            }
            eprintln!("FDS {:?}", h);
        }
        obs.maximum("open_file_descriptors", names.len() as u64);
    }
    match result {
        // the loopback socket itself failed (bind / connect / write: e.g. descriptors exhausted): nothing
        // was learned about the proxy
        Err(f) if f.signature.starts_with("harness:") => {
            obs.class(format!("skipped:{}", f.signature));
            obs.nontrivial = false;
            Ok(())
        }
        r => r,
    }
}

/// Every cut position of a fixed pipeline: for 6 (and 2x4) requests answered with 12-byte replies the
/// first connection is closed after every byte count 0..=total of the reply stream and after every
/// request count; the second connection is clean, refuses once, or is cut again at a few positions;
/// for every batching strategy and three fragmentations.
pub fn enumerated_cases() -> Vec<NodeCase> {
    let mut v = vec![];
    let clean = ConnPlan { coalesce: 1, ..Default::default() };
    for (bursts, nreq) in [(vec![(0u32, 6u8)], 6usize), (vec![(0u32, 4u8), (700u32, 4u8)], 8usize)] {
        let total = (nreq * 12) as u32;
        for batch in 0u8..3 {
            for fragments in [vec![], vec![1u16], vec![5u16, 2]] {
                for coalesce in [1u8, 3] {
                    let mut firsts = vec![];
                    for cut in 0..=total {
                        firsts.push(ConnPlan { fragments: fragments.clone(), coalesce, cut_after_reply_bytes: Some(cut), ..Default::default() });
                    }
                    for m in 1..=nreq as u16 {
                        firsts.push(ConnPlan { fragments: fragments.clone(), coalesce, cut_after_requests: Some(m), ..Default::default() });
                    }
                    for first in firsts {
                        // second connection: clean / refused once then clean / cut again (three positions)
                        let mut seconds: Vec<Vec<ConnPlan>> = vec![vec![], vec![ConnPlan { refuse: true, ..Default::default() }]];
                        if fragments.is_empty() && coalesce == 1 {
                            for cut2 in [0u32, 13, 30] {
                                seconds.push(vec![ConnPlan { coalesce: 1, cut_after_reply_bytes: Some(cut2), ..Default::default() }]);
                            }
                            // cut on every connection until the retry budget is exhausted
                            seconds.push((0..5).map(|_| ConnPlan { coalesce: 1, cut_after_reply_bytes: Some(5), ..Default::default() }).collect());
                        }
                        for second in seconds {
                            let mut conns = vec![first.clone()];
                            conns.extend(second);
                            v.push(NodeCase { script: Script { conns, rest: clean.clone(), shapes: 0 }, bursts: bursts.clone(), batch, backend_timeout_ms: 500, pad: 0, flush: 0 });
                        }
                        // the backend goes down for good after the cut: nothing may stay unanswered
                        if coalesce == 1 {
                            let down = ConnPlan { refuse: true, ..Default::default() };
                            v.push(NodeCase { script: Script { conns: vec![first.clone()], rest: down, shapes: 0 }, bursts: bursts.clone(), batch, backend_timeout_ms: 500, pad: 0, flush: 0 });
                        }
                    }
                }
            }
        }
    }
    v
}

pub const RULE_ENUM: &str = "[enumerated] fixed pipelines (6 requests in one burst; 4+4 in two bursts) x every cut position of the first connection's reply byte stream (0..=total bytes) and every cut-after-request count x {disabled, fixed, dynamic} batching x 3 fragmentations x 2 coalescing factors x second connection {clean, refused once, cut again at 3 positions, cut on 5 consecutive connections, backend down for good}; same oracle as backend-node; exhaustive over this grid";

pub const RULE_NODE: &str = "[backend-node] the real BackendNode/handle_backend with the real ReplyCommitHandler and real CmdCtx tasks over a scripted backend behind the ConnFactory seam (real RespCodec over an in-memory duplex byte stream): pipelines of up to ~60 requests with unique ids in generated bursts; per connection a generated plan: refuse, reply latency, byte-level fragmentation of the reply stream, coalescing of several replies into one write, stall after n requests (backend_timeout 50/500/3000 ms), cut after byte n of the reply stream / after request m, then the next connection's plan; batching in {disabled, fixed, dynamic} with 5 settings of flush size (1..64) and flush intervals (20 us..20 ms); oracle: every request resolves exactly once within bounded virtual time, a successful reply carries the request's own id, otherwise an error; the backend sees a request at most 4 times; non-trivial = a cut strictly inside the reply stream with requests on both sides, or fragmentation inside a packet";
pub const RULE_SESSION: &str = "[session] the full stack over loopback TCP: real handle_session -> Session -> ForwardHandler -> scripted backend (backend_conn_num 1..3); pipelined requests (backend GETs interleaved with locally answered PING/ECHO) written in generated fragments; oracle: reply k answers request k (own key / own echo / OK / an error for a failed backend exchange), counts equal; half of the cases run with a session_timeout of 2..4 s and a client that is silent for 0..30 ms after connecting: the connection must not be closed before the client has been silent for a full timeout (believed only after three failing attempts, real time); a quarter of the cases use a LAZY READER: small socket buffers, 9 KiB backend replies, the client pipelines everything and starts reading 150 ms later (the proxy's writes hit back-pressure); non-trivial = a cut or fragmentation";

pub fn run(ctx: &Ctx, findings: &Findings) -> PropReport {
    let mut subs = vec![];
    CASE_THREADS.store(false, std::sync::atomic::Ordering::Relaxed);
    if let Some(path) = &ctx.replay {
        let v: serde_json::Value = serde_json::from_str(&std::fs::read_to_string(path).expect("replay file")).expect("json");
        if let Some(r) = replay_case::<NodeCase>(ctx, findings, "backend-node", &v, &check_node) {
            subs.push(r);
        }
        if let Some(r) = replay_case::<NodeCase>(ctx, findings, "enumerated", &v, &check_node) {
            subs.push(r);
        }
        if let Some(r) = replay_case::<SessionCase>(ctx, findings, "session", &v, &check_session) {
            subs.push(r);
        }
    } else {
        subs.push(drive(ctx, findings, "backend-node", RULE_NODE, ctx.cases(20000, 400000), node_strategy, &check_node));
        subs.push(drive_enum(ctx, findings, "enumerated", RULE_ENUM, enumerated_cases(), true, &check_node));
        let sctx = Ctx { prop: ctx.prop.clone(), tier: ctx.tier, seed: ctx.seed, replay: None, verif_dir: ctx.verif_dir.clone(), workers: 8, started: ctx.started, scale: ctx.scale };
        MAX_SHRINK_ITERS.store(48, std::sync::atomic::Ordering::Relaxed);
        subs.push(drive(&sctx, findings, "session", RULE_SESSION, ctx.cases(800, 3500).min(3500), session_strategy, &check_session));
    }
    PropReport {
        level: "fault_enumeration",
        subs,
        assumptions: vec![
            "layer 1 runs on the virtual clock; the TCP session layer runs in real time with a 20 s allowance per case".into(),
            "a proxy that is never shut down keeps a reference cycle alive that pins its runtime's epoll/event descriptors and one socket (about 4 descriptors per TCP session case, reported as maximum open_file_descriptors); the descriptor limit of this sandbox (20000) therefore caps the session sub-check at 3500 cases per process".into(),
            "multi-packet (ReqTask::Multi) exchanges are covered by C15 (decoder hints) and C03 (migration traffic)".into(),
        ],
        extra: Default::default(),
    }
}
