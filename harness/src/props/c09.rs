//! C09 - key-to-slot routing at a proxy is exact.
use crate::engines::world::*;
use crate::fw::*;
use crate::{ensure, fail};
use proptest::prelude::*;
use serde::{Deserialize, Serialize};
use std::collections::HashMap;
use std::convert::TryFrom;
use std::sync::OnceLock;
use undermoon::common::cluster::{ClusterName, Range, RangeList, SlotRange, SlotRangeTag};
use undermoon::common::config::ClusterConfig;
use undermoon::common::proto::{ClusterMapFlags, ProxyClusterMeta};
use undermoon::protocol::{Resp, RespVec};

/// reference: CRC16-XMODEM (poly 0x1021, init 0, no reflection), written from the spec
pub fn crc16_xmodem(data: &[u8]) -> u16 {
    let mut crc: u16 = 0;
    for b in data {
        crc ^= (*b as u16) << 8;
        for _ in 0..8 {
            crc = if crc & 0x8000 != 0 { (crc << 1) ^ 0x1021 } else { crc << 1 };
        }
    }
    crc
}

/// reference: Redis Cluster hash tag rule - the part between the first '{' and the first
/// '}' after it, if that part is not empty; otherwise the whole key
pub fn ref_slot(key: &[u8]) -> usize {
    let mut part = key;
    if let Some(open) = key.iter().position(|b| *b == b'{') {
        if let Some(len) = key[open + 1..].iter().position(|b| *b == b'}') {
            if len > 0 {
                part = &key[open + 1..open + 1 + len];
            }
        }
    }
    (crc16_xmodem(part) % 16384) as usize
}

/// one short key for every slot
pub fn slot_keys() -> &'static Vec<Vec<u8>> {
    static T: OnceLock<Vec<Vec<u8>>> = OnceLock::new();
    T.get_or_init(|| {
        let mut t: Vec<Option<Vec<u8>>> = vec![None; 16384];
        let mut left = 16384;
        let mut i = 0u64;
        while left > 0 {
            // every third key uses a hash tag
            let k = if i % 3 == 0 { format!("t{{{}}}x", i).into_bytes() } else { format!("k{}", i).into_bytes() };
            let s = ref_slot(&k);
            if t[s].is_none() {
                t[s] = Some(k);
                left -= 1;
            }
            i += 1;
        }
        t.into_iter().map(|x| x.expect("key")).collect()
    })
}

pub fn key_strategy() -> impl Strategy<Value = Vec<u8>> {
    let piece = prop_oneof![
        4 => "[a-z0-9]{0,6}".prop_map(|s| s.into_bytes()),
        3 => Just(b"{".to_vec()),
        3 => Just(b"}".to_vec()),
        1 => Just(b"{}".to_vec()),
        1 => prop::collection::vec(any::<u8>(), 0..5),
    ];
    prop_oneof![
        10 => prop::collection::vec(piece, 0..7).prop_map(|v| v.concat()),
        1 => prop::collection::vec(any::<u8>(), 0..4096),
        1 => Just(vec![]),
    ]
}

#[derive(Debug, Clone, Serialize, Deserialize)]
pub struct PureCase {
    pub key: Vec<u8>,
}

pub fn check_pure(c: &PureCase, obs: &mut Obs) -> Result<(), Fail> {
    let want = ref_slot(&c.key);
    let got = undermoon::common::utils::generate_slot(&c.key);
    if c.key.contains(&b'{') || c.key.contains(&b'}') {
        obs.nontrivial = true;
        obs.class("key:has-brace");
    }
    ensure!(
        got == want,
        "C09:slot-differs",
        "generate_slot({:?}) = {}, CRC16-XMODEM of the hash tag mod 16384 is {}",
        String::from_utf8_lossy(&c.key),
        got,
        want
    );
    Ok(())
}

// --- proxy level ------------------------------------------------------------

#[derive(Debug, Clone, Serialize, Deserialize)]
pub enum KeySel {
    Bytes(Vec<u8>),
    /// a key hashing to cut point `i` of the layout plus `delta` slots
    Boundary(u16, i8),
    Slot(u16),
}

#[derive(Debug, Clone, Serialize, Deserialize)]
pub enum Shape {
    Get,
    Set,
    Incr,
    Eval1,
    EvalSha1,
    /// two keys: second key same slot (true) or another slot
    Eval2(bool),
    Mget(Vec<KeySel>, bool),
    Mset(Vec<KeySel>, bool),
    Msetnx(Vec<KeySel>, bool),
    Del(Vec<KeySel>, bool),
    Exists(Vec<KeySel>, bool),
    Keyslot,
}

#[derive(Debug, Clone, Serialize, Deserialize)]
pub struct RouteCase {
    /// cut points partition 0..16384 into segments
    pub cuts: Vec<u16>,
    /// owner of each segment: 0..3 local node, 3..6 peer proxy, 6 = nobody (gap)
    pub owners: Vec<u8>,
    pub cmds: Vec<(Shape, KeySel)>,
    pub nodes_v2: bool,
}

fn keysel() -> impl Strategy<Value = KeySel> {
    prop_oneof![
        3 => key_strategy().prop_map(KeySel::Bytes),
        4 => (any::<u16>(), -1i8..=1).prop_map(|(i, d)| KeySel::Boundary(i, d)),
        2 => (0u16..16384).prop_map(KeySel::Slot),
    ]
}

fn shape() -> impl Strategy<Value = Shape> {
    let extra = || prop::collection::vec(keysel(), 1..4);
    prop_oneof![
        4 => Just(Shape::Get),
        3 => Just(Shape::Set),
        1 => Just(Shape::Incr),
        2 => Just(Shape::Eval1),
        1 => Just(Shape::EvalSha1),
        2 => any::<bool>().prop_map(Shape::Eval2),
        2 => (extra(), any::<bool>()).prop_map(|(k, s)| Shape::Mget(k, s)),
        2 => (extra(), any::<bool>()).prop_map(|(k, s)| Shape::Mset(k, s)),
        1 => (extra(), any::<bool>()).prop_map(|(k, s)| Shape::Msetnx(k, s)),
        2 => (extra(), any::<bool>()).prop_map(|(k, s)| Shape::Del(k, s)),
        2 => (extra(), any::<bool>()).prop_map(|(k, s)| Shape::Exists(k, s)),
        1 => Just(Shape::Keyslot),
    ]
}

pub fn route_strategy() -> impl Strategy<Value = RouteCase> {
    (
        prop::collection::vec(prop_oneof![3 => 0u16..16384, 1 => Just(0u16), 1 => Just(16383u16), 1 => Just(1u16)], 0..8),
        prop::collection::vec(0u8..7, 9),
        prop::collection::vec((shape(), keysel()), 1..12),
        any::<bool>(),
    )
        .prop_map(|(cuts, owners, cmds, nodes_v2)| RouteCase { cuts, owners, cmds, nodes_v2 })
}

pub const PROXY: &str = "127.0.0.1:6000";
fn local_addr(i: usize) -> String {
    format!("127.0.0.1:{}", 7001 + i)
}
fn peer_addr(i: usize) -> String {
    format!("127.0.0.{}:6000", 2 + i)
}

struct Layout {
    /// owner per slot: Some(0..3) local, Some(3..6) peer, None gap
    owner: Vec<Option<u8>>,
    cuts: Vec<usize>,
}

fn layout(c: &RouteCase) -> Layout {
    let mut cuts: Vec<usize> = c.cuts.iter().map(|x| *x as usize).collect();
    cuts.push(0);
    cuts.sort();
    cuts.dedup();
    let mut owner = vec![None; 16384];
    for (i, start) in cuts.iter().enumerate() {
        let end = cuts.get(i + 1).copied().unwrap_or(16384);
        let o = c.owners[i % c.owners.len()];
        for s in *start..end {
            owner[s] = if o == 6 { None } else { Some(o) };
        }
    }
    Layout { owner, cuts }
}

fn ranges_of(l: &Layout, who: u8) -> Vec<SlotRange> {
    // maximal runs of slots owned by `who`; distribute runs over up to two SlotRange entries
    let mut runs = vec![];
    let mut s = 0;
    while s < 16384 {
        if l.owner[s] == Some(who) {
            let start = s;
            while s < 16384 && l.owner[s] == Some(who) {
                s += 1;
            }
            runs.push(Range(start, s - 1));
        } else {
            s += 1;
        }
    }
    if runs.is_empty() {
        return vec![];
    }
    if runs.len() >= 2 {
        let second = runs.split_off(runs.len() / 2);
        vec![
            SlotRange { range_list: RangeList::new(runs), tag: SlotRangeTag::None },
            SlotRange { range_list: RangeList::new(second), tag: SlotRangeTag::None },
        ]
    } else {
        vec![SlotRange { range_list: RangeList::new(runs), tag: SlotRangeTag::None }]
    }
}

fn resolve(sel: &KeySel, l: &Layout) -> Vec<u8> {
    match sel {
        KeySel::Bytes(b) => b.clone(),
        KeySel::Slot(s) => slot_keys()[*s as usize % 16384].clone(),
        KeySel::Boundary(i, d) => {
            let c = l.cuts[pick(*i, l.cuts.len())] as i64 + *d as i64;
            slot_keys()[c.rem_euclid(16384) as usize].clone()
        }
    }
}

/// a key in the same slot as `k` (same hash tag) or in a different slot
fn sibling(k: &[u8], same: bool, n: usize) -> Vec<u8> {
    let slot = ref_slot(k);
    if same {
        // wrap the representative of the slot into a hash tag: "{rep}n" hashes like rep
        let rep = &slot_keys()[slot];
        if rep.contains(&b'{') || rep.contains(&b'}') {
            // representative with a tag: reuse its tag "t{i}x" -> "u{i}<n>"
            let open = rep.iter().position(|b| *b == b'{').expect("open");
            let close = rep.iter().position(|b| *b == b'}').expect("close");
            let mut v = b"u".to_vec();
            v.extend_from_slice(&rep[open..=close]);
            v.extend_from_slice(n.to_string().as_bytes());
            v
        } else {
            let mut v = b"{".to_vec();
            v.extend_from_slice(rep);
            v.extend_from_slice(b"}");
            v.extend_from_slice(n.to_string().as_bytes());
            v
        }
    } else {
        slot_keys()[(slot + 1 + 37 * n) % 16384].clone()
    }
}

async fn run_route(c: &RouteCase, obs: &mut Obs) -> Result<(), Fail> {
    let l = layout(c);
    let world = World::new();
    let opts = ProxyOpts { nodes_v2: c.nodes_v2, ..ProxyOpts::default() };
    world.net.add_proxy(PROXY, &opts);
    let mut local = HashMap::new();
    let mut standins = vec![];
    for i in 0..3 {
        let r = ranges_of(&l, i as u8);
        standins.push(world.net.add_redis(&local_addr(i), i as u64));
        if !r.is_empty() {
            local.insert(local_addr(i), r);
        }
    }
    let mut peer = HashMap::new();
    for i in 0..3 {
        let r = ranges_of(&l, 3 + i as u8);
        if !r.is_empty() {
            peer.insert(peer_addr(i), r);
        }
    }
    if local.values().any(|r| r.len() >= 2 || r[0].range_list.get_ranges().len() >= 2) {
        obs.class("layout:several-ranges-on-a-node");
    }
    if l.owner.iter().any(|o| o.is_none()) {
        obs.class("layout:has-gap");
    }
    let meta = ProxyClusterMeta::new(
        1,
        ClusterMapFlags { force: false, compress: false },
        ClusterName::try_from("mycluster").expect("name"),
        local,
        peer,
        ClusterConfig::default(),
    );
    let mut set = cmd(&["UMCTL", "SETCLUSTER"]);
    set.extend(meta.to_args().into_iter().map(|s| s.into_bytes()));
    let r = world.once(PROXY, &set).await;
    ensure!(matches!(&r, Resp::Simple(s) if s == b"OK"), "harness:setcluster", "SETCLUSTER refused: {}", show_resp(&r));

    let client = world.client(PROXY).expect("proxy");
    let log_lens = |st: &Vec<std::sync::Arc<Standin>>| st.iter().map(|s| s.log.lock().len()).collect::<Vec<_>>();
    for (n, (shape, ksel)) in c.cmds.iter().enumerate() {
        let key = resolve(ksel, &l);
        let slot = ref_slot(&key);
        let owner = l.owner[slot];
        let near_boundary = l.cuts.iter().any(|c| (*c as i64 - slot as i64).abs() <= 1);
        if key.contains(&b'{') || key.contains(&b'}') || near_boundary || owner.is_none() {
            obs.nontrivial = true;
        }
        if near_boundary {
            obs.class("slot:within-1-of-a-boundary");
        }
        obs.class(match owner {
            Some(o) if o < 3 => "owner:local",
            Some(_) => "owner:peer",
            None => "owner:nobody",
        });
        let val = format!("v{}", n).into_bytes();
        // build the command and the list of (key, sub-command name) that must reach the backend
        let mut multi_keys: Vec<Vec<u8>> = vec![key.clone()];
        let mut same_slot = true;
        let (command, expect_cmds): (Cmd, Vec<String>) = match shape {
            Shape::Get => (cmdb(&[b"GET", &key]), vec!["GET".into()]),
            Shape::Set => (cmdb(&[b"SET", &key, &val]), vec!["SET".into()]),
            Shape::Incr => (cmdb(&[b"INCR", &key]), vec!["INCR".into()]),
            Shape::Eval1 => (cmdb(&[b"EVAL", b"return 1", b"1", &key, b"arg"]), vec!["EVAL".into()]),
            Shape::EvalSha1 => (cmdb(&[b"EVALSHA", b"abcdef", b"1", &key]), vec!["EVALSHA".into()]),
            Shape::Eval2(same) => {
                let k2 = sibling(&key, *same, 1);
                same_slot = *same;
                multi_keys.push(k2.clone());
                (cmdb(&[b"EVAL", b"return 2", b"2", &key, &k2]), vec!["EVAL".into()])
            }
            Shape::Mget(ks, same) | Shape::Mset(ks, same) | Shape::Msetnx(ks, same) | Shape::Del(ks, same) | Shape::Exists(ks, same) => {
                for (j, _) in ks.iter().enumerate() {
                    multi_keys.push(sibling(&key, *same, j + 1));
                }
                same_slot = *same;
                let (name, sub, with_vals): (&[u8], &str, bool) = match shape {
                    Shape::Mget(..) => (b"MGET", "GET", false),
                    Shape::Mset(..) => (b"MSET", "SET", true),
                    Shape::Msetnx(..) => (b"MSETNX", "MSETNX", true),
                    Shape::Del(..) => (b"DEL", "DEL", false),
                    _ => (b"EXISTS", "EXISTS", false),
                };
                let mut cm: Cmd = vec![name.to_vec()];
                for k in &multi_keys {
                    cm.push(k.clone());
                    if with_vals {
                        cm.push(val.clone());
                    }
                }
                obs.class("cmd:multi-key");
                obs.nontrivial = true;
                let n_sub = if sub == "MSETNX" { 1 } else { multi_keys.len() };
                (cm, vec![sub.to_string(); n_sub])
            }
            Shape::Keyslot => (cmdb(&[b"CLUSTER", b"KEYSLOT", &key]), vec![]),
        };
        let before = log_lens(&standins);
        let reply = client.cmd(&command).await;
        let after = log_lens(&standins);
        let shown = show_cmd(&command);
        if matches!(shape, Shape::Keyslot) {
            ensure!(
                matches!(&reply, Resp::Integer(i) if i == slot.to_string().as_bytes()),
                "C09:keyslot-differs",
                "CLUSTER KEYSLOT {:?} replies {}, expected {}",
                String::from_utf8_lossy(&key),
                show_resp(&reply),
                slot
            );
            continue;
        }
        let executed: Vec<usize> = (0..3).filter(|i| after[*i] != before[*i]).collect();
        if !same_slot {
            obs.class("cmd:keys-in-different-slots");
            ensure!(
                matches!(reply, Resp::Error(_)),
                "C09:cross-slot-accepted",
                "[{}] has keys in different slots and active redirection is off, but the reply is {}",
                shown,
                show_resp(&reply)
            );
            ensure!(
                executed.is_empty(),
                "C09:cross-slot-partially-executed",
                "[{}] has keys in different slots; it was refused but stand-in(s) {:?} executed something",
                shown,
                executed
            );
            continue;
        }
        match owner {
            Some(o) if o < 3 => {
                let o = o as usize;
                ensure!(
                    executed == vec![o],
                    "C09:executed-on-wrong-node",
                    "[{}] slot {} belongs to local node {} ({}), but the stand-ins that executed something are {:?}; reply {}",
                    shown,
                    slot,
                    o,
                    local_addr(o),
                    executed,
                    show_resp(&reply)
                );
                let log = standins[o].log_snapshot();
                let new: Vec<String> = log[before[o]..].iter().map(|e| upper(&e.cmd[0])).collect();
                ensure!(
                    new == expect_cmds,
                    "C09:unexpected-backend-commands",
                    "[{}] slot {}: backend {} received {:?}, expected {:?}",
                    shown,
                    slot,
                    local_addr(o),
                    new,
                    expect_cmds
                );
                for e in &log[before[o]..] {
                    let kpos = if upper(&e.cmd[0]).starts_with("EVAL") { 3 } else { 1 };
                    ensure!(
                        multi_keys.contains(&e.cmd[kpos]),
                        "C09:backend-key-altered",
                        "[{}]: backend command {} carries a key that was not in the request",
                        shown,
                        show_cmd(&e.cmd)
                    );
                }
                ensure!(!matches!(parse_moved(&reply), Some(_)), "C09:moved-for-local-slot", "[{}] slot {} is local but the reply is {}", shown, slot, show_resp(&reply));
            }
            Some(p) => {
                let want = format!("MOVED {} {}", slot, peer_addr(p as usize - 3));
                ensure!(
                    matches!(&reply, Resp::Error(e) if e == want.as_bytes()),
                    "C09:wrong-moved",
                    "[{}] slot {} belongs to peer {}: expected error '{}', got {}",
                    shown,
                    slot,
                    peer_addr(p as usize - 3),
                    want,
                    show_resp(&reply)
                );
                ensure!(executed.is_empty(), "C09:executed-although-moved", "[{}] answered MOVED but stand-in(s) {:?} executed something", shown, executed);
            }
            None => {
                ensure!(
                    matches!(reply, Resp::Error(_)) && parse_moved(&reply).is_none(),
                    "C09:uncovered-slot-not-an-error",
                    "[{}] slot {} is covered by nobody; expected an error reply, got {}",
                    shown,
                    slot,
                    show_resp(&reply)
                );
                ensure!(executed.is_empty(), "C09:executed-uncovered-slot", "[{}] slot {} is covered by nobody but stand-in(s) {:?} executed something", shown, slot, executed);
            }
        }
    }
    Ok(())
}

pub fn check_route(c: &RouteCase, obs: &mut Obs) -> Result<(), Fail> {
    let rt = world_runtime();
    let r = rt.block_on(run_route(c, obs));
    drop(rt);
    let _ = fail_unused();
    r
}

fn fail_unused() -> Result<(), Fail> {
    if false {
        fail!("unused", "unused");
    }
    Ok(())
}

pub const RULE_PURE: &str = "[pure] byte-string keys biased to brace structure ({, }, {}, nested, unmatched, binary, empty, up to 4 KiB): generate_slot vs an independent bitwise CRC16-XMODEM + hash-tag rule written from the Redis Cluster specification; non-trivial = key contains a brace; distinct = the key";
pub const RULE_ROUTE: &str = "[route] a real proxy (SharedForwardHandler) with 3 stateful Redis stand-ins behind it; layout = generated cut points over 0..16383 (incl. 0, 1, 16383, single-slot segments), each segment owned by one of 3 local nodes, 3 peers or nobody (gaps), several ranges per node, delivered through UMCTL SETCLUSTER and the real parser; commands GET/SET/INCR/EVAL/EVALSHA (key at position 3)/EVAL with 2 keys/MGET/MSET/MSETNX/DEL/EXISTS with 2..4 keys in the same or in different slots/CLUSTER KEYSLOT, keys = arbitrary bytes, keys hashing to a cut point +-1, keys of a chosen slot; oracle from the reference slot: executed on exactly the owning stand-in (stand-in logs) with the expected sub-commands, or exact 'MOVED <slot> <peer>', or an error for gaps; cross-slot multi-key refused with nothing executed; non-trivial = brace in key, slot within 1 of a boundary, gap, or multi-key; distinct = hash of the case";

pub fn run(ctx: &Ctx, findings: &Findings) -> PropReport {
    let mut subs = vec![];
    if let Some(path) = &ctx.replay {
        let v: serde_json::Value = serde_json::from_str(&std::fs::read_to_string(path).expect("replay file")).expect("json");
        if let Some(r) = replay_case::<PureCase>(ctx, findings, "pure", &v, &check_pure) {
            subs.push(r);
        }
        if let Some(r) = replay_case::<RouteCase>(ctx, findings, "route", &v, &check_route) {
            subs.push(r);
        }
    } else {
        CASE_THREADS.store(false, std::sync::atomic::Ordering::Relaxed);
        subs.push(drive(ctx, findings, "pure", RULE_PURE, ctx.cases(400000, 8000000), || key_strategy().prop_map(|key| PureCase { key }), &check_pure));
        CASE_THREADS.store(true, std::sync::atomic::Ordering::Relaxed);
        let _ = slot_keys();
        subs.push(drive(ctx, findings, "route", RULE_ROUTE, ctx.cases(20000, 400000), route_strategy, &check_route));
    }
    PropReport {
        level: "exploration",
        subs,
        assumptions: vec![
            "layouts are non-overlapping (overlap only arises from migration twins, see C02/C14)".into(),
            "active redirection is off in this check (the property's refusal clause); the redirection path is exercised by C02/C03".into(),
        ],
        extra: Default::default(),
    }
}
