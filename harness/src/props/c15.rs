//! C15 - RESP encoding and incremental decoding are lossless.
use crate::engines::codec::*;
use crate::fw::*;
use crate::{ensure, fail};
use bytes::BytesMut;
use proptest::prelude::*;
use serde::{Deserialize, Serialize};
use tokio_util::codec::{Decoder, Encoder};
use undermoon::protocol::{
    new_optional_multi_packet_codec, new_simple_packet_codec, BinSafeStr, DecodedPacket, EncodedPacket, OptionalMulti, PacketDecoder,
    PacketEncoder, RespCodec, RespPacket, RespVec,
};

#[derive(Debug, Clone, Serialize, Deserialize)]
pub struct RtCase {
    pub values: Vec<RVal>,
    /// split positions (mapped monotonically onto the stream length)
    pub splits: Vec<u16>,
    /// 0 RespVec, 1 RespPacket, 2 Box<RespPacket>, 3 OptionalMulti single, 4 OptionalMulti multi
    pub decoder: u8,
    /// bytes following the last packet (must stay untouched)
    pub tail: Vec<u8>,
}

pub fn rt_strategy() -> impl Strategy<Value = RtCase> {
    (
        prop::collection::vec(rval_strategy(), 1..6),
        prop::collection::vec(any::<u16>(), 0..6),
        0u8..5,
        prop_oneof![3 => Just(vec![]), 1 => prop::collection::vec(any::<u8>(), 1..12)],
    )
        .prop_map(|(values, splits, decoder, tail)| RtCase { values, splits, decoder, tail })
}

/// a uniform interface over the decoders under test
enum Dec {
    Vec(RespCodec<undermoon::protocol::SimplePacketEncoder<RespVec>, undermoon::protocol::SimplePacketDecoder<RespVec>>),
    Pkt(RespCodec<undermoon::protocol::SimplePacketEncoder<RespPacket>, undermoon::protocol::SimplePacketDecoder<RespPacket>>),
    Boxed(RespCodec<undermoon::protocol::SimplePacketEncoder<Box<RespPacket>>, undermoon::protocol::SimplePacketDecoder<Box<RespPacket>>>),
}

struct Out {
    val: RVal,
    /// re-encoding of the decoded packet (pass-through check), if the type supports it
    reenc: Option<Vec<u8>>,
}

impl Dec {
    fn new(kind: u8) -> Dec {
        match kind {
            0 => {
                let (e, d) = new_simple_packet_codec::<RespVec, RespVec>();
                Dec::Vec(RespCodec::new(e, d))
            }
            1 => {
                let (e, d) = new_simple_packet_codec::<RespPacket, RespPacket>();
                Dec::Pkt(RespCodec::new(e, d))
            }
            _ => {
                let (e, d) = new_simple_packet_codec::<Box<RespPacket>, Box<RespPacket>>();
                Dec::Boxed(RespCodec::new(e, d))
            }
        }
    }
    fn decode(&mut self, buf: &mut BytesMut) -> Result<Option<Out>, String> {
        match self {
            Dec::Vec(c) => Ok(c.decode(buf).map_err(|e| e.to_string())?.map(|v| Out { val: RVal::from_resp(&v), reenc: None })),
            Dec::Pkt(c) => {
                let r = c.decode(buf).map_err(|e| e.to_string())?;
                Ok(r.map(|p| {
                    let val = RVal::from_resp(&p.to_resp_vec());
                    let mut out = BytesMut::new();
                    let _ = c.encode(p, &mut out);
                    Out { val, reenc: Some(out.to_vec()) }
                }))
            }
            Dec::Boxed(c) => {
                let r = c.decode(buf).map_err(|e| e.to_string())?;
                Ok(r.map(|p| {
                    let val = RVal::from_resp(&p.to_resp_vec());
                    let mut out = BytesMut::new();
                    let _ = c.encode(p, &mut out);
                    Out { val, reenc: Some(out.to_vec()) }
                }))
            }
        }
    }
}

fn real_encode(v: &RVal) -> Result<Vec<u8>, Fail> {
    // through the public encoder API
    let mut a = Vec::new();
    let n = undermoon::protocol::resp_to_buf(&mut a, &v.to_resp()).map_err(|e| Fail::new("C15:encode-error", e.to_string()))?;
    ensure!(n == a.len(), "C15:encode-size", "encoder reports {} bytes but wrote {}", n, a.len());
    // through the packet encoder (what the sessions use)
    let (e, d) = new_simple_packet_codec::<RespVec, RespVec>();
    let mut c = RespCodec::new(e, d);
    let mut out = BytesMut::new();
    c.encode(v.to_resp(), &mut out).map_err(|e| Fail::new("C15:encode-error", e.to_string()))?;
    ensure!(out.as_ref() == a.as_slice(), "C15:encoders-disagree", "resp_to_buf and the packet encoder disagree for {:?}", v);
    // RespPacket::Data path
    let (mut n2, _) = RespPacket::from_resp_vec(v.to_resp()).encode(|_| {}).map_err(|e| Fail::new("C15:encode-error", e.to_string()))?;
    n2 += 0;
    ensure!(n2 == a.len(), "C15:encode-size", "RespPacket::Data encodes {} bytes, expected {}", n2, a.len());
    Ok(a)
}

pub fn check_roundtrip(case: &RtCase, obs: &mut Obs) -> Result<(), Fail> {
    // encode
    let mut wire = vec![];
    let mut bounds = vec![]; // end offset of each value
    for v in &case.values {
        let enc = real_encode(v)?;
        let mut want = vec![];
        v.encode(&mut want);
        ensure!(
            enc == want,
            "C15:encoding-differs-from-spec",
            "value {:?} is encoded as {:?}, the RESP encoding is {:?}",
            v,
            String::from_utf8_lossy(&enc[..enc.len().min(80)]),
            String::from_utf8_lossy(&want[..want.len().min(80)])
        );
        wire.extend_from_slice(&enc);
        bounds.push(wire.len());
    }
    let stream_len = wire.len();
    let mut full = wire.clone();
    full.extend_from_slice(&case.tail);
    if case.values.iter().any(|v| v.depth() >= 2 || v.has_crlf_payload()) {
        obs.nontrivial = true;
        obs.class("value:nested>=2-or-crlf-payload");
    }
    obs.class(format!("decoder:{}", case.decoder));

    // chunking: generated split points, or (small streams) every single split point
    let mut plans: Vec<Vec<usize>> = vec![vec![]];
    let mut cuts: Vec<usize> = case.splits.iter().map(|s| pick(*s, stream_len + 1)).collect();
    cuts.sort();
    cuts.dedup();
    plans.push(cuts);
    if stream_len <= 512 {
        for p in 1..stream_len {
            plans.push(vec![p]);
        }
        obs.class("splits:every-single-split-point");
    }
    for plan in &plans {
        for cut in plan {
            // split inside a CRLF or inside a length line?
            if *cut > 0 && *cut < stream_len && wire[*cut - 1] == b'\r' && wire[*cut] == b'\n' {
                obs.nontrivial = true;
                obs.class("split:inside-crlf");
            }
        }
        if case.decoder <= 2 {
            run_plan_simple(case, &full, stream_len, &bounds, plan)?;
        } else {
            run_plan_multi(case, &full, stream_len, &bounds, plan, case.decoder == 4)?;
        }
    }
    Ok(())
}

fn run_plan_simple(case: &RtCase, full: &[u8], stream_len: usize, bounds: &[usize], plan: &[usize]) -> Result<(), Fail> {
    let mut dec = Dec::new(case.decoder);
    let mut buf = BytesMut::new();
    let mut fed = 0usize;
    let mut consumed = 0usize;
    let mut got = 0usize;
    let mut points: Vec<usize> = plan.to_vec();
    points.push(full.len());
    for p in points {
        buf.extend_from_slice(&full[fed..p]);
        fed = p;
        while got < case.values.len() {
            let before = buf.len();
            match dec.decode(&mut buf) {
                Err(e) => fail!(
                    "C15:error-on-valid-stream",
                    "decoder {} failed with {} on a valid stream (packet {} of {}, {} of {} bytes fed, split plan {:?})",
                    case.decoder,
                    e,
                    got,
                    case.values.len(),
                    fed,
                    stream_len,
                    plan
                ),
                Ok(None) => {
                    ensure!(
                        fed < bounds[got],
                        "C15:stalls-on-complete-packet",
                        "decoder {} asks for more data although packet {} is complete ({} bytes fed, packet ends at {})",
                        case.decoder,
                        got,
                        fed,
                        bounds[got]
                    );
                    ensure!(
                        buf.as_ref() == &full[consumed..fed],
                        "C15:consumed-bytes-of-incomplete-packet",
                        "after 'need more data' the buffer is not the unconsumed input: {} bytes left, expected {} (split plan {:?})",
                        buf.len(),
                        fed - consumed,
                        plan
                    );
                    break;
                }
                Ok(Some(out)) => {
                    let used = before - buf.len();
                    let start = if got == 0 { 0 } else { bounds[got - 1] };
                    ensure!(
                        out.val == case.values[got],
                        "C15:roundtrip-value",
                        "packet {}: decoded {:?}, encoded value was {:?} (split plan {:?})",
                        got,
                        out.val,
                        case.values[got],
                        plan
                    );
                    ensure!(
                        used == bounds[got] - start,
                        "C15:roundtrip-consumed",
                        "packet {}: decoder consumed {} bytes, the encoding has {}",
                        got,
                        used,
                        bounds[got] - start
                    );
                    if let Some(re) = out.reenc {
                        ensure!(
                            re.as_slice() == &full[start..bounds[got]],
                            "C15:passthrough-modified",
                            "packet {}: re-encoding the decoded packet does not reproduce its bytes",
                            got
                        );
                    }
                    consumed += used;
                    got += 1;
                }
            }
        }
    }
    ensure!(got == case.values.len(), "C15:missing-packets", "decoded {} of {} packets", got, case.values.len());
    ensure!(
        buf.as_ref() == &full[stream_len..],
        "C15:following-bytes-touched",
        "bytes after the last packet were modified or consumed: {:?} vs {:?}",
        buf.as_ref(),
        &full[stream_len..]
    );
    Ok(())
}

fn run_plan_multi(case: &RtCase, full: &[u8], stream_len: usize, bounds: &[usize], plan: &[usize], multi: bool) -> Result<(), Fail> {
    // the reply-side decoder of a backend connection: hints come from the encoder
    let (mut enc, mut dec) = new_optional_multi_packet_codec::<Vec<BinSafeStr>, RespVec>();
    let mut buf = BytesMut::new();
    let mut fed = 0usize;
    let mut points: Vec<usize> = plan.to_vec();
    points.push(full.len());
    let mut got: Vec<RVal> = vec![];
    let n = case.values.len();
    let mut announced = 0usize; // packets announced through hints so far
    let announce = |enc: &mut undermoon::protocol::OptionalMultiPacketEncoder<Vec<BinSafeStr>>, k: usize| -> Result<(), Fail> {
        let cmd = vec![b"PING".to_vec()];
        let pkt = if multi { OptionalMulti::Multi(vec![cmd; k]) } else { OptionalMulti::Single(cmd) };
        enc.encode(pkt, |_| {}).map_err(|e| Fail::new("C15:hint-not-accepted", e.to_string()))?;
        Ok(())
    };
    if multi {
        announce(&mut enc, n)?;
        announced = n;
    }
    for p in points {
        buf.extend_from_slice(&full[fed..p]);
        fed = p;
        loop {
            if got.len() >= n {
                break;
            }
            if !multi && announced == got.len() {
                announce(&mut enc, 1)?;
                announced += 1;
            }
            match dec.decode(&mut buf) {
                Err(e) => fail!("C15:error-on-valid-stream", "multi-packet decoder failed with {} on a valid stream (plan {:?})", e, plan),
                Ok(None) => {
                    let complete_upto = bounds.iter().filter(|b| **b <= fed).count();
                    if multi {
                        ensure!(
                            fed < stream_len,
                            "C15:stalls-on-complete-packet",
                            "multi decoder asks for more data although all {} packets are complete",
                            n
                        );
                        // only an incomplete tail may remain buffered
                        let tail_start = if complete_upto == 0 { 0 } else { bounds[complete_upto - 1] };
                        ensure!(
                            buf.as_ref() == &full[tail_start..fed],
                            "C15:consumed-bytes-of-incomplete-packet",
                            "multi decoder: buffer after 'need more' is not the incomplete tail"
                        );
                    } else {
                        ensure!(
                            complete_upto == got.len(),
                            "C15:stalls-on-complete-packet",
                            "single-hint decoder asks for more data although packet {} is complete",
                            got.len()
                        );
                        let start = if got.is_empty() { 0 } else { bounds[got.len() - 1] };
                        ensure!(
                            buf.as_ref() == &full[start..fed],
                            "C15:consumed-bytes-of-incomplete-packet",
                            "single-hint decoder: buffer after 'need more' is not the unconsumed input"
                        );
                    }
                    break;
                }
                Ok(Some(OptionalMulti::Single(v))) => {
                    ensure!(!multi, "C15:hint-mismatch", "multi hint answered with a single packet");
                    got.push(RVal::from_resp(&v));
                }
                Ok(Some(OptionalMulti::Multi(vs))) => {
                    ensure!(multi, "C15:hint-mismatch", "single hint answered with a multi packet");
                    got.extend(vs.iter().map(RVal::from_resp));
                }
            }
        }
    }
    ensure!(
        got == case.values,
        "C15:roundtrip-value",
        "multi-packet decoding yields {:?}, expected {:?} (plan {:?})",
        got,
        case.values,
        plan
    );
    ensure!(
        buf.as_ref() == &full[stream_len..],
        "C15:following-bytes-touched",
        "bytes after the last packet were modified or consumed"
    );
    Ok(())
}

// ---------------------------------------------------------------------------
// differential against the strict reference recognizer
// ---------------------------------------------------------------------------

#[derive(Debug, Clone, Serialize, Deserialize)]
pub struct DiffCase {
    pub bytes: Vec<u8>,
}

#[derive(Debug, Clone)]
enum Mutation {
    CrlfToLf(u16),
    CrlfToCrX(u16, u8),
    DropCrlf(u16),
    BumpLen(u16, i8),
    SetLen(u16, u8),
    TypeByte(u16, u8),
    Truncate(u16),
    Insert(u16, u8),
    Flip(u16, u8),
}

fn mutation() -> impl Strategy<Value = Mutation> {
    prop_oneof![
        3 => any::<u16>().prop_map(Mutation::CrlfToLf),
        3 => (any::<u16>(), any::<u8>()).prop_map(|(a, b)| Mutation::CrlfToCrX(a, b)),
        2 => any::<u16>().prop_map(Mutation::DropCrlf),
        3 => (any::<u16>(), prop_oneof![Just(-1i8), Just(1i8), Just(2i8), Just(-2i8)]).prop_map(|(a, b)| Mutation::BumpLen(a, b)),
        2 => (any::<u16>(), 0u8..8).prop_map(|(a, b)| Mutation::SetLen(a, b)),
        2 => (any::<u16>(), any::<u8>()).prop_map(|(a, b)| Mutation::TypeByte(a, b)),
        3 => any::<u16>().prop_map(Mutation::Truncate),
        2 => (any::<u16>(), any::<u8>()).prop_map(|(a, b)| Mutation::Insert(a, b)),
        2 => (any::<u16>(), any::<u8>()).prop_map(|(a, b)| Mutation::Flip(a, b)),
    ]
}

fn positions(b: &[u8], pat: &[u8]) -> Vec<usize> {
    (0..b.len().saturating_sub(pat.len() - 1)).filter(|i| &b[*i..*i + pat.len()] == pat).collect()
}

/// positions of length prefixes: (start of digits, end of digits)
fn len_fields(b: &[u8]) -> Vec<(usize, usize)> {
    let mut v = vec![];
    let mut i = 0;
    while i < b.len() {
        if (b[i] == b'$' || b[i] == b'*') && (i == 0 || b[i - 1] == b'\n') {
            let s = i + 1;
            let mut e = s;
            while e < b.len() && (b[e].is_ascii_digit() || b[e] == b'-') {
                e += 1;
            }
            if e > s {
                v.push((s, e));
            }
            i = e;
        } else {
            i += 1;
        }
    }
    v
}

fn apply(m: &Mutation, b: &mut Vec<u8>) {
    match m {
        Mutation::CrlfToLf(i) => {
            let p = positions(b, b"\r\n");
            if !p.is_empty() {
                let at = p[pick(*i, p.len())];
                b.remove(at);
            }
        }
        Mutation::CrlfToCrX(i, x) => {
            let p = positions(b, b"\r\n");
            if !p.is_empty() {
                let at = p[pick(*i, p.len())];
                b[at + 1] = if *x == b'\n' { b'X' } else { *x };
            }
        }
        Mutation::DropCrlf(i) => {
            let p = positions(b, b"\r\n");
            if !p.is_empty() {
                let at = p[pick(*i, p.len())];
                b.drain(at..at + 2);
            }
        }
        Mutation::BumpLen(i, d) => {
            let f = len_fields(b);
            if !f.is_empty() {
                let (s, e) = f[pick(*i, f.len())];
                if let Some(n) = std::str::from_utf8(&b[s..e]).ok().and_then(|x| x.parse::<i64>().ok()) {
                    let n = n + *d as i64;
                    b.splice(s..e, n.to_string().into_bytes());
                }
            }
        }
        Mutation::SetLen(i, k) => {
            let f = len_fields(b);
            if !f.is_empty() {
                let (s, e) = f[pick(*i, f.len())];
                // hostile-but-bounded prefixes (unbounded ones belong to C16, which isolates them in a child process)
                let v: &[u8] = [&b"-2"[..], b"-0", b"+1", b"", b"1a", b"007", b"65535", b"99999999999999999999"][*k as usize];
                b.splice(s..e, v.to_vec());
            }
        }
        Mutation::TypeByte(i, x) => {
            let p: Vec<usize> = (0..b.len()).filter(|j| *j == 0 || b[*j - 1] == b'\n').collect();
            if !p.is_empty() {
                let at = p[pick(*i, p.len())];
                if at < b.len() {
                    b[at] = *x;
                }
            }
        }
        Mutation::Truncate(i) => {
            let n = pick(*i, b.len() + 1);
            b.truncate(n);
        }
        Mutation::Insert(i, x) => {
            let n = pick(*i, b.len() + 1);
            b.insert(n, *x);
        }
        Mutation::Flip(i, x) => {
            if !b.is_empty() {
                let n = pick(*i, b.len());
                b[n] ^= *x | 1;
            }
        }
    }
}

fn small_rval() -> impl Strategy<Value = RVal> {
    let leaf = prop_oneof![
        2 => "[a-z]{0,6}".prop_map(|s| RVal::Simple(s.into_bytes())),
        1 => "[A-Z]{0,6}".prop_map(|s| RVal::Error(s.into_bytes())),
        2 => (-3i64..100).prop_map(|i| RVal::Int(i.to_string().into_bytes())),
        6 => prop::collection::vec(prop_oneof![4 => 0x61u8..0x67, 1 => Just(b'\r'), 1 => Just(b'\n'), 1 => Just(b'$')], 0..10).prop_map(|b| RVal::Bulk(Some(b))),
        1 => Just(RVal::Bulk(None)),
        1 => Just(RVal::Arr(None)),
    ];
    leaf.prop_recursive(3, 16, 4, |inner| prop::collection::vec(inner, 0..4).prop_map(|v| RVal::Arr(Some(v))))
}

pub fn diff_strategy() -> impl Strategy<Value = DiffCase> {
    let mutated = (prop::collection::vec(small_rval(), 1..3), prop::collection::vec(mutation(), 0..3)).prop_map(|(vals, muts)| {
        let mut b = vec![];
        for v in &vals {
            v.encode(&mut b);
        }
        for m in &muts {
            apply(m, &mut b);
        }
        DiffCase { bytes: b }
    });
    let raw = prop::collection::vec(
        prop_oneof![
            2 => Just(b'\r'), 2 => Just(b'\n'), 1 => Just(b'+'), 1 => Just(b'-'), 1 => Just(b':'), 2 => Just(b'$'), 2 => Just(b'*'),
            4 => 0x30u8..0x34, 2 => 0x61u8..0x64, 1 => any::<u8>()
        ],
        0..24,
    )
    .prop_map(|bytes| DiffCase { bytes });
    prop_oneof![5 => mutated, 2 => raw]
}

/// guard against the unbounded pre-allocation of the array parser (that is C16's subject)
fn has_huge_count(b: &[u8]) -> bool {
    len_fields(b).iter().any(|(s, e)| {
        std::str::from_utf8(&b[*s..*e]).ok().and_then(|x| x.parse::<i64>().ok()).map(|n| n > (1 << 20)).unwrap_or(false)
            && *s > 0
            && b[*s - 1] == b'*'
    })
}

pub fn check_diff(case: &DiffCase, obs: &mut Obs) -> Result<(), Fail> {
    let b = &case.bytes;
    if has_huge_count(b) {
        obs.excluded += 1;
        return Ok(());
    }
    let verdict = ref_parse(b);
    let mut buf = BytesMut::from(&b[..]);
    let real = <RespVec as DecodedPacket>::decode(&mut buf, ());
    let shown = String::from_utf8_lossy(&b[..b.len().min(120)]).to_string();
    match (&real, &verdict) {
        (Ok(Some(v)), Verdict::Complete(want, n)) => {
            obs.class("agree:complete");
            let used = b.len() - buf.len();
            ensure!(
                RVal::from_resp(v) == *want && used == *n,
                "C15:differs-from-reference",
                "input {:?}: decoded {:?} consuming {} bytes; the strict RESP reading is {:?} consuming {}",
                shown,
                RVal::from_resp(v),
                used,
                want,
                n
            );
            ensure!(buf.as_ref() == &b[*n..], "C15:following-bytes-touched", "input {:?}: bytes after the packet were modified", shown);
        }
        (Ok(Some(v)), Verdict::Invalid) => fail!(
            "C15:accepts-non-resp",
            "input {:?} is not RESP (strict RESP2 framing) but decodes to the valid value {:?} consuming {} bytes",
            shown,
            RVal::from_resp(v),
            b.len() - buf.len()
        ),
        (Ok(Some(v)), Verdict::Incomplete) => fail!(
            "C15:decodes-incomplete-packet",
            "input {:?} is an incomplete packet but decodes to {:?} consuming {} bytes",
            shown,
            RVal::from_resp(v),
            b.len() - buf.len()
        ),
        (Ok(None), Verdict::Complete(want, n)) => fail!(
            "C15:stalls-on-complete-packet",
            "input {:?} holds the complete packet {:?} ({} bytes) but the decoder asks for more data",
            shown,
            want,
            n
        ),
        (Err(e), Verdict::Complete(want, _)) => fail!("C15:error-on-valid-stream", "input {:?} is the valid packet {:?} but the decoder fails with {}", shown, want, e),
        (Err(e), Verdict::Incomplete) => fail!(
            "C15:error-on-incomplete-packet",
            "input {:?} is a proper prefix of RESP data but the decoder fails with {} (a split read would kill the connection)",
            shown,
            e
        ),
        (Ok(None), Verdict::Incomplete) => {
            obs.class("agree:incomplete");
            ensure!(buf.as_ref() == b.as_slice(), "C15:consumed-bytes-of-incomplete-packet", "input {:?}: need-more but the buffer changed", shown);
        }
        (Ok(None), Verdict::Invalid) => obs.class("invalid:detected-late(still waiting)"),
        (Err(_), Verdict::Invalid) => {
            obs.class("agree:invalid");
            obs.nontrivial = true;
        }
        (_, Verdict::Unspecified) => obs.class("unspecified-by-reference"),
    }
    if matches!(verdict, Verdict::Complete(..)) && b.len() > 6 {
        obs.nontrivial = true;
    }
    Ok(())
}

/// split-read metamorphic relation on arbitrary bytes (libFuzzer target; also replayable):
/// feeding `bytes[..at]` first and the rest afterwards must give the same outcome as feeding
/// everything at once
#[derive(Debug, Clone, Serialize, Deserialize)]
pub struct SplitCase {
    pub bytes: Vec<u8>,
    pub at: usize,
}

pub fn check_split(case: &SplitCase, obs: &mut Obs) -> Result<(), Fail> {
    let b = &case.bytes;
    if has_huge_count(b) {
        obs.excluded += 1;
        return Ok(());
    }
    let at = case.at.min(b.len());
    let shown = String::from_utf8_lossy(&b[..b.len().min(120)]).to_string();
    let mut whole = BytesMut::from(&b[..]);
    let full = <RespVec as DecodedPacket>::decode(&mut whole, ()).map(|o| o.map(|v| (RVal::from_resp(&v), b.len() - whole.len())));
    let mut buf = BytesMut::from(&b[..at]);
    let pre = <RespVec as DecodedPacket>::decode(&mut buf, ()).map(|o| o.map(|v| (RVal::from_resp(&v), at - buf.len())));
    match pre {
        Ok(Some(first)) => {
            obs.class("split:prefix-holds-a-packet");
            ensure!(
                matches!(&full, Ok(Some(f)) if *f == first),
                "C15:split-read-differs",
                "input {:?}: the first {} bytes decode to {:?}, the whole input decodes to {:?}",
                shown,
                at,
                first,
                full.as_ref().map_err(|e| e.to_string())
            );
        }
        Ok(None) => {
            ensure!(buf.as_ref() == &b[..at], "C15:consumed-bytes-of-incomplete-packet", "input {:?}: need-more after {} bytes but the buffer changed", shown, at);
            buf.extend_from_slice(&b[at..]);
            let second = <RespVec as DecodedPacket>::decode(&mut buf, ()).map(|o| o.map(|v| (RVal::from_resp(&v), b.len() - buf.len())));
            let same = match (&second, &full) {
                (Ok(a), Ok(c)) => a == c,
                (Err(_), Err(_)) => true,
                _ => false,
            };
            ensure!(
                same,
                "C15:split-read-differs",
                "input {:?} split after {} bytes decodes to {:?}; in one piece to {:?}",
                shown,
                at,
                second.as_ref().map_err(|e| e.to_string()),
                full.as_ref().map_err(|e| e.to_string())
            );
            if matches!(full, Ok(Some(_))) && at > 0 {
                obs.class("split:inside-a-complete-packet");
                obs.nontrivial = true;
            }
        }
        Err(_) => {
            obs.class("split:prefix-invalid");
            ensure!(full.is_err(), "C15:split-read-differs", "input {:?}: the first {} bytes are rejected, the whole input is accepted as {:?}", shown, at, full.as_ref().map_err(|e| e.to_string()));
        }
    }
    Ok(())
}

pub fn split_strategy() -> impl Strategy<Value = SplitCase> {
    (diff_strategy(), any::<u16>()).prop_map(|(d, k)| {
        let at = pick(k, d.bytes.len() + 1);
        SplitCase { bytes: d.bytes, at }
    })
}

pub const RULE_SPLIT: &str = "the byte strings of the differential generator, cut at a generated position: decoding the first part and then the rest must give the same value, consumed length or error as decoding everything at once; a 'need more' answer leaves the buffer untouched; non-trivial = the cut lies inside a packet that is complete in the whole input; distinct = hash of the case";
pub const RULE_FUZZ: &str = "libFuzzer (coverage-guided, ASan, fixed -seed and -runs per worker process, fresh corpus seeded with golden RESP packets and a RESP dictionary) over raw byte strings up to 512 bytes; in-target oracles: the strict-RESP2 differential and the split-read relation (same functions as the proptest sub-checks); every crash artifact is re-decided by the oracle in the parent before it is reported";

pub const RULE_RT: &str = "recursive RESP value generator (depth<=5, arrays<=12, bulk 0..70000 bytes incl. CR/LF/NUL/$/*, nil bulk/array, empty array/string; line payloads without CR/LF) -> pipelines of 1..5 values encoded by the real encoder (compared with a reference encoder written from the spec) -> decoded by RespVec / RespPacket / Box<RespPacket> codecs and the OptionalMulti decoder with Single and Multi hints, in one piece, under a generated k-way split and (streams <= 512 B) under EVERY single split point; oracle: same values, exact consumed byte counts, buffer == unconsumed input whenever 'need more', pass-through re-encoding byte-identical, trailing bytes untouched; non-trivial = nesting >= 2 or CR/LF in a payload or a split inside a CRLF; distinct = hash of the case";
pub const RULE_DIFF: &str = "differential against a strict RESP2 reference recognizer (Complete/Incomplete/Invalid/Unspecified) over targeted mutations of valid encodings (CRLF->LF, CR+X, dropped terminator, length +-1/+-2, hostile-but-bounded prefixes, type byte, truncation, insertion, bit flips) and raw bytes over a RESP-biased alphabet; real Ok must equal the reference value and length, reference-invalid must not decode to a value, reference-incomplete must be 'need more'; non-trivial = reference-invalid input, or a complete packet longer than 6 bytes; distinct = hash of the bytes";

pub fn run(ctx: &Ctx, findings: &Findings) -> PropReport {
    CASE_THREADS.store(false, std::sync::atomic::Ordering::Relaxed);
    let mut subs = vec![];
    let mut fuzz_note: Option<String> = None;
    if let Some(path) = &ctx.replay {
        let v: serde_json::Value = serde_json::from_str(&std::fs::read_to_string(path).expect("replay file")).expect("json");
        if let Some(r) = replay_case::<RtCase>(ctx, findings, "roundtrip", &v, &check_roundtrip) {
            subs.push(r);
        }
        if let Some(r) = replay_case::<DiffCase>(ctx, findings, "differential", &v, &check_diff) {
            subs.push(r);
        }
        if let Some(r) = replay_case::<SplitCase>(ctx, findings, "split", &v, &check_split) {
            subs.push(r);
        }
    } else {
        subs.push(drive(ctx, findings, "roundtrip", RULE_RT, ctx.cases(60000, 1200000), rt_strategy, &check_roundtrip));
        subs.push(drive(ctx, findings, "differential", RULE_DIFF, ctx.cases(3000000, 60000000), diff_strategy, &check_diff));
        subs.push(drive(ctx, findings, "split", RULE_SPLIT, ctx.cases(1000000, 20000000), split_strategy, &check_split));
        if ctx.tier == Tier::Thorough {
            let spec = crate::fuzzing::FuzzSpec {
                target: "c15_decode",
                sub: "differential",
                rule: RULE_FUZZ,
                runs: ((3_000_000.0 * ctx.scale) as u64).max(1000),
                max_len: 512,
                timeout_s: 30,
                malloc_limit_mb: 1024,
                detect_leaks: true,
                confirm: &|bytes: &[u8], obs: &mut Obs| {
                    if bytes.is_empty() {
                        return Ok(());
                    }
                    let body = bytes[1..].to_vec();
                    check_diff(&DiffCase { bytes: body.clone() }, obs)?;
                    let at = (bytes[0] as usize * (body.len() + 1)) >> 8;
                    check_split(&SplitCase { bytes: body, at }, obs)
                },
                case_of: &|bytes: &[u8]| serde_json::to_value(DiffCase { bytes: bytes.get(1..).unwrap_or(&[]).to_vec() }).unwrap(),
            };
            match crate::fuzzing::run_fuzz(ctx, findings, &spec) {
                Some(r) => subs.push(r),
                None => fuzz_note = Some(crate::fuzzing::fuzz_missing_note("c15_decode")),
            }
        }
    }
    PropReport {
        level: "exploration",
        subs,
        assumptions: vec![
            "content the code treats as opaque (digits of ':' integers, negative lengths other than -1, '+N' lengths, a CR inside a line) is 'unspecified' for the reference and never alarms".into(),
            "array counts above 2^20 are excluded here (the parser pre-allocates by declared count; that is C16's subject and is run there in an isolated child process)".into(),
        ]
        .into_iter()
        .chain(fuzz_note)
        .collect(),
        extra: Default::default(),
    }
}
