//! exploratory driver (not a check): runs one default migration and prints what happened
use crate::engines::migworld::*;
use crate::engines::world::*;
use crate::props::c09::slot_keys;
use std::time::Duration;

pub fn run() {
    let rt = world_runtime();
    rt.block_on(async {
        let cfg = MigCfg::default();
        let m = Mig::build(cfg).await.expect("build");
        // some keys in the range on src
        let mut keys = vec![];
        for s in [2000usize, 2500, 3000, 4999, 100, 6000] {
            let k = slot_keys()[s].clone();
            let r = follow_moved(&m.world, BY, &cmdb(&[b"SET", &k, b"v0"]), 3).await;
            println!("SET slot {} -> {} path {:?}", s, show_resp(&r.0), r.1);
            keys.push(k);
        }
        let r = m.world.once(SRC, &cmdb(&[b"SET", &keys[1], b"vttl", b"PX", b"100000"])).await;
        println!("set ttl {}", show_resp(&r));
        m.install(2, 1, 2, &[DST, SRC, BY]).await.expect("install migration");
        let done = tokio::time::timeout(Duration::from_secs(30), async {
            loop {
                let f = m.finished(SRC).await;
                let g = m.finished(DST).await;
                if !f.is_empty() && !g.is_empty() {
                    println!("finished src={:?}\n         dst={:?}", f, g);
                    break;
                }
                tokio::time::sleep(Duration::from_millis(5)).await;
            }
        })
        .await;
        println!("migration done: {:?}", done.is_ok());
        for (t, to, k) in m.world.net.gate.trace.lock().iter() {
            println!("  {:>10?} {} <- {}", t, to, k);
        }
        for (name, s) in [("src", &m.src_redis), ("dst", &m.dst_redis)] {
            println!("{} keys: {:?}", name, s.keys().iter().map(|k| String::from_utf8_lossy(k).to_string()).collect::<Vec<_>>());
        }
        for k in &keys {
            for start in [SRC, DST, BY] {
                let r = follow_moved(&m.world, start, &cmdb(&[b"GET", k]), 4).await;
                println!("GET {:?} via {} -> {} path {:?}", String::from_utf8_lossy(k), start, show_resp(&r.0), r.1);
            }
        }
        m.install(3, 2, 2, &[DST, SRC, BY]).await.expect("commit");
        for k in &keys[..2] {
            let r = follow_moved(&m.world, SRC, &cmdb(&[b"GET", k]), 4).await;
            println!("after commit GET {:?} via SRC -> {} path {:?}", String::from_utf8_lossy(k), show_resp(&r.0), r.1);
        }
        let r = m.world.once(SRC, &cmd(&["CLUSTER", "NODES"])).await;
        println!("{}", show_resp(&r));
    });
}
