//! C07 - the control plane converges despite message faults and coordinator crashes.
use crate::engines::brokersim::{self, broker_config, BrokerCfg, VStore};
use crate::engines::world::*;
use crate::fw::*;
use crate::props::c09::slot_keys;
use crate::{ensure, fail};
use futures::{Future, Stream, StreamExt};
use parking_lot::Mutex;
use proptest::prelude::*;
use serde::{Deserialize, Serialize};
use std::collections::{BTreeMap, BTreeSet};
use std::pin::Pin;
use std::sync::atomic::{AtomicBool, AtomicU64, Ordering};
use std::sync::Arc;
use std::time::Duration;
use undermoon::broker::MemBrokerService;
use undermoon::common::cluster::{Cluster, ClusterName, MigrationTaskMeta, Proxy};
use undermoon::coordinator::broker::{MetaDataBroker, MetaDataBrokerError, MetaManipulationBroker, MetaManipulationBrokerError};
use undermoon::coordinator::verif_export::*;
use undermoon::protocol::{BinSafeStr, OptionalMulti, RedisClient, RedisClientError, RedisClientFactory, Resp, RespVec};

// ---------------------------------------------------------------------------
// crash control: the coordinator "dies" at its n-th outgoing call
// ---------------------------------------------------------------------------

/// rounds that did not finish within 600 virtual seconds (reported as a class, never a pass)
pub static ROUND_TIMEOUTS: AtomicU64 = AtomicU64::new(0);

#[derive(Default)]
pub struct CrashCtl {
    calls: AtomicU64,
    crash_at: AtomicU64, // 0 = never
    crashed: AtomicBool,
    notify: tokio::sync::Notify,
}

impl CrashCtl {
    /// returns true if the coordinator crashes right here (the call is never made)
    fn on_call(&self) -> bool {
        let n = self.calls.fetch_add(1, Ordering::SeqCst) + 1;
        let at = self.crash_at.load(Ordering::SeqCst);
        if at != 0 && n == at {
            self.crashed.store(true, Ordering::SeqCst);
            self.notify.notify_waiters();
            return true;
        }
        self.crashed.load(Ordering::SeqCst)
    }
}

async fn never<T>() -> T {
    futures::future::pending::<T>().await
}

// ---------------------------------------------------------------------------
// the broker as the coordinator sees it (with injected faults)
// ---------------------------------------------------------------------------

pub struct FaultyBroker {
    svc: Arc<MemBrokerService>,
    net: Arc<Net>,
    ctl: Arc<CrashCtl>,
    /// successful commits: (range list as string, migration epoch)
    pub commits: Arc<Mutex<Vec<(String, u64)>>>,
    /// successful commits for the ordering clause: (trace index, dst proxy, src proxy, cluster epoch after the commit)
    pub commit_marks: Mutex<Vec<(usize, String, String, u64)>>,
    /// every commit request that reached the broker (for stale replays)
    pub sent: Arc<Mutex<Vec<MigrationTaskMeta>>>,
}

impl FaultyBroker {
    pub fn new(svc: Arc<MemBrokerService>, net: Arc<Net>, ctl: Arc<CrashCtl>) -> FaultyBroker {
        FaultyBroker { svc, net, ctl, commits: Arc::new(Mutex::new(vec![])), commit_marks: Mutex::new(vec![]), sent: Arc::new(Mutex::new(vec![])) }
    }

    async fn gate(&self, kind: &str, to: &str) -> Result<Option<Fault>, ()> {
        if self.ctl.on_call() {
            never::<()>().await;
        }
        let m = Msg { detail: String::new(), to: to.to_string(), kind: format!("BROKER:{}", kind), conn: 0, is_reply: false };
        Ok(self.net.gate.pass(&m).await)
    }
}

fn io_err() -> std::io::Error {
    std::io::Error::new(std::io::ErrorKind::Other, "injected broker fault")
}

impl MetaDataBroker for FaultyBroker {
    fn get_cluster_names<'s>(&'s self) -> Pin<Box<dyn Stream<Item = Result<ClusterName, MetaDataBrokerError>> + Send + 's>> {
        Box::pin(
            async move {
                let f = self.gate("get_cluster_names", "-").await.ok().flatten();
                if matches!(f, Some(Fault::DropRequest) | Some(Fault::DropReply) | Some(Fault::DelayShort) | Some(Fault::DelayLong)) {
                    return vec![Err(MetaDataBrokerError::Io(io_err()))];
                }
                match self.svc.get_cluster_names(None, None).await {
                    Ok(v) => v.into_iter().map(Ok).collect(),
                    Err(_) => vec![Err(MetaDataBrokerError::RequestFailed)],
                }
            }
            .map(futures::stream::iter)
            .flatten_stream(),
        )
    }

    fn get_cluster<'s>(&'s self, name: ClusterName) -> Pin<Box<dyn Future<Output = Result<Option<Cluster>, MetaDataBrokerError>> + Send + 's>> {
        Box::pin(async move {
            let f = self.gate("get_cluster", name.as_str()).await.ok().flatten();
            if matches!(f, Some(Fault::DropRequest) | Some(Fault::DropReply) | Some(Fault::DelayShort) | Some(Fault::DelayLong)) {
                return Err(MetaDataBrokerError::Io(io_err()));
            }
            self.svc.get_cluster_by_name(name.as_str()).await.map_err(|_| MetaDataBrokerError::RequestFailed)
        })
    }

    fn get_proxy_addresses<'s>(&'s self) -> Pin<Box<dyn Stream<Item = Result<String, MetaDataBrokerError>> + Send + 's>> {
        Box::pin(
            async move {
                let f = self.gate("get_proxy_addresses", "-").await.ok().flatten();
                if matches!(f, Some(Fault::DropRequest) | Some(Fault::DropReply) | Some(Fault::DelayShort) | Some(Fault::DelayLong)) {
                    return vec![Err(MetaDataBrokerError::Io(io_err()))];
                }
                match self.svc.get_proxy_addresses(None, None).await {
                    Ok(v) => v.into_iter().map(Ok).collect(),
                    Err(_) => vec![Err(MetaDataBrokerError::RequestFailed)],
                }
            }
            .map(futures::stream::iter)
            .flatten_stream(),
        )
    }

    fn get_proxy<'s>(&'s self, address: String) -> Pin<Box<dyn Future<Output = Result<Option<Proxy>, MetaDataBrokerError>> + Send + 's>> {
        Box::pin(async move {
            let f = self.gate("get_proxy", &address).await.ok().flatten();
            if matches!(f, Some(Fault::DropRequest) | Some(Fault::DropReply) | Some(Fault::DelayShort) | Some(Fault::DelayLong)) {
                return Err(MetaDataBrokerError::Io(io_err()));
            }
            self.svc.get_proxy_by_address(&address).await.map_err(|_| MetaDataBrokerError::RequestFailed)
        })
    }

    fn add_failure<'s>(&'s self, address: String, reporter_id: String) -> Pin<Box<dyn Future<Output = Result<(), MetaDataBrokerError>> + Send + 's>> {
        Box::pin(async move {
            let f = self.gate("add_failure", &address).await.ok().flatten();
            if matches!(f, Some(Fault::DropRequest)) {
                return Err(MetaDataBrokerError::Io(io_err()));
            }
            if let Some(d) = f.and_then(|f| f.delay()) {
                let svc = self.svc.clone();
                tokio::spawn(async move {
                    tokio::time::sleep(d).await;
                    let _ = svc.add_failure(address, reporter_id).await;
                });
                return Err(MetaDataBrokerError::Io(io_err()));
            }
            let r = self.svc.add_failure(address.clone(), reporter_id.clone()).await;
            if matches!(f, Some(Fault::Duplicate)) {
                let _ = self.svc.add_failure(address, reporter_id).await;
            }
            if matches!(f, Some(Fault::DropReply)) {
                return Err(MetaDataBrokerError::Io(io_err()));
            }
            r.map_err(|_| MetaDataBrokerError::RequestFailed)
        })
    }

    fn get_failures<'s>(&'s self) -> Pin<Box<dyn Stream<Item = Result<String, MetaDataBrokerError>> + Send + 's>> {
        Box::pin(
            async move {
                let f = self.gate("get_failures", "-").await.ok().flatten();
                if matches!(f, Some(Fault::DropRequest) | Some(Fault::DropReply) | Some(Fault::DelayShort) | Some(Fault::DelayLong)) {
                    return vec![Err(MetaDataBrokerError::Io(io_err()))];
                }
                match self.svc.get_failures().await {
                    Ok(v) => v.into_iter().map(Ok).collect(),
                    Err(_) => vec![Err(MetaDataBrokerError::RequestFailed)],
                }
            }
            .map(futures::stream::iter)
            .flatten_stream(),
        )
    }

    fn get_failed_proxies<'s>(&'s self) -> Pin<Box<dyn Stream<Item = Result<String, MetaDataBrokerError>> + Send + 's>> {
        Box::pin(
            async move {
                let f = self.gate("get_failed_proxies", "-").await.ok().flatten();
                if matches!(f, Some(Fault::DropRequest) | Some(Fault::DropReply) | Some(Fault::DelayShort) | Some(Fault::DelayLong)) {
                    return vec![Err(MetaDataBrokerError::Io(io_err()))];
                }
                match self.svc.get_failed_proxies().await {
                    Ok(v) => v.into_iter().map(Ok).collect(),
                    Err(_) => vec![Err(MetaDataBrokerError::RequestFailed)],
                }
            }
            .map(futures::stream::iter)
            .flatten_stream(),
        )
    }
}

use futures::FutureExt;

impl MetaManipulationBroker for FaultyBroker {
    fn replace_proxy<'s>(&'s self, failed_proxy_address: String) -> Pin<Box<dyn Future<Output = Result<Option<Proxy>, MetaManipulationBrokerError>> + Send + 's>> {
        Box::pin(async move {
            let f = self.gate("replace_proxy", &failed_proxy_address).await.ok().flatten();
            if matches!(f, Some(Fault::DropRequest)) {
                return Err(MetaManipulationBrokerError::Io(io_err()));
            }
            if let Some(d) = f.and_then(|f| f.delay()) {
                let svc = self.svc.clone();
                tokio::spawn(async move {
                    tokio::time::sleep(d).await;
                    let _ = svc.replace_failed_proxy(failed_proxy_address).await;
                });
                return Err(MetaManipulationBrokerError::Io(io_err()));
            }
            let r = self.svc.replace_failed_proxy(failed_proxy_address.clone()).await;
            if matches!(f, Some(Fault::Duplicate)) {
                let _ = self.svc.replace_failed_proxy(failed_proxy_address).await;
            }
            if matches!(f, Some(Fault::DropReply)) {
                return Err(MetaManipulationBrokerError::Io(io_err()));
            }
            r.map_err(|e| match e {
                undermoon::broker::MetaStoreError::NoAvailableResource => MetaManipulationBrokerError::ResourceNotAvailable,
                _ => MetaManipulationBrokerError::RequestFailed,
            })
        })
    }

    fn commit_migration<'s>(&'s self, meta: MigrationTaskMeta) -> Pin<Box<dyn Future<Output = Result<(), MetaManipulationBrokerError>> + Send + 's>> {
        Box::pin(async move {
            let key = format!("{}", meta.slot_range.range_list);
            let epoch = meta.slot_range.tag.get_migration_meta().map(|m| m.epoch).unwrap_or(0);
            let f = self.gate("commit_migration", &key).await.ok().flatten();
            if matches!(f, Some(Fault::DropRequest)) {
                return Err(MetaManipulationBrokerError::Io(io_err()));
            }
            if let Some(d) = f.and_then(|f| f.delay()) {
                // the commit request is still in flight when the coordinator gives up on it
                let (svc, commits, sent) = (self.svc.clone(), self.commits.clone(), self.sent.clone());
                tokio::spawn(async move {
                    tokio::time::sleep(d).await;
                    sent.lock().push(meta.clone());
                    if svc.commit_migration(meta).await.is_ok() {
                        commits.lock().push((key, epoch));
                    }
                });
                return Err(MetaManipulationBrokerError::Io(io_err()));
            }
            self.sent.lock().push(meta.clone());
            let mut r = self.svc.commit_migration(meta.clone()).await;
            if r.is_ok() {
                self.commits.lock().push((key.clone(), epoch));
                if let Some(mm) = meta.slot_range.tag.get_migration_meta() {
                    let after = self.svc.get_proxy_by_address(&mm.dst_proxy_address).await.ok().flatten().map(|p| p.get_epoch()).unwrap_or(0);
                    let idx = self.net.gate.trace.lock().len();
                    self.commit_marks.lock().push((idx, mm.dst_proxy_address.clone(), mm.src_proxy_address.clone(), after));
                }
            }
            if matches!(f, Some(Fault::Duplicate)) {
                let r2 = self.svc.commit_migration(meta).await;
                if r2.is_ok() {
                    self.commits.lock().push((key, epoch));
                }
                r = r2;
            }
            if matches!(f, Some(Fault::DropReply)) {
                return Err(MetaManipulationBrokerError::Io(io_err()));
            }
            r.map_err(|_| MetaManipulationBrokerError::RequestFailed)
        })
    }
}

// ---------------------------------------------------------------------------
// the coordinator's view of the network: counts calls for the crash point
// ---------------------------------------------------------------------------

pub struct CoordNet {
    net: Arc<Net>,
    ctl: Arc<CrashCtl>,
}

pub struct CoordClient {
    inner: NetClient,
    ctl: Arc<CrashCtl>,
}

impl RedisClient for CoordClient {
    fn execute<'s>(&'s mut self, command: OptionalMulti<Vec<BinSafeStr>>) -> Pin<Box<dyn Future<Output = Result<OptionalMulti<RespVec>, RedisClientError>> + Send + 's>> {
        Box::pin(async move {
            if self.ctl.on_call() {
                never::<()>().await;
            }
            self.inner.execute(command).await
        })
    }
}

impl RedisClientFactory for CoordNet {
    type Client = CoordClient;
    fn create_client<'s>(&'s self, address: String) -> Pin<Box<dyn Future<Output = Result<Self::Client, RedisClientError>> + Send + 's>> {
        Box::pin(async move {
            let inner = self.net.create_client(address).await?;
            Ok(CoordClient { inner, ctl: self.ctl.clone() })
        })
    }
}

// ---------------------------------------------------------------------------
// the case
// ---------------------------------------------------------------------------

#[derive(Debug, Clone, Serialize, Deserialize)]
pub enum Step {
    Create { chunks: u8 },
    ScaleOut { k: u8 },
    ScaleDown { k: u8 },
    Sync { c: u8 },
    Mig { c: u8 },
    /// a sync round of coordinator 0 and a migration round of coordinator 1, concurrently
    SyncAndMig,
    Detect { c: u8 },
    Handle { c: u8 },
    Restart { p: u8 },
    Kill { p: u8 },
    Pause { ms: u16 },
    /// a stale duplicate of an earlier commit request reaches the broker now (delayed delivery)
    ReplayCommit { k: u8 },
}

#[derive(Debug, Clone, Serialize, Deserialize)]
pub struct FaultSpec {
    /// index into FAULT_KINDS
    pub kind: u8,
    /// target: proxy index, or 255 = the n-th such call to anybody
    pub target: u8,
    pub occurrence: u8,
    pub fault: Fault,
}

#[derive(Debug, Clone, Serialize, Deserialize)]
pub struct CCase {
    pub hosts: Vec<u8>,
    pub migration_limit: u64,
    pub compress: bool,
    pub steps: Vec<Step>,
    pub faults: Vec<FaultSpec>,
    /// the coordinator dies at its n-th outgoing call of the given step (step index, call number)
    pub crash: Option<(u8, u8)>,
}

const FAULT_KINDS: [&str; 10] = [
    "BROKER:get_proxy",
    "BROKER:get_proxy_addresses",
    "BROKER:commit_migration",
    "BROKER:replace_proxy",
    "BROKER:get_failures",
    "BROKER:add_failure",
    "UMCTL:SETREPL",
    "UMCTL:SETCLUSTER",
    "UMCTL:INFOMGR",
    "PING",
];

fn fault_kind() -> impl Strategy<Value = Fault> {
    prop_oneof![2 => Just(Fault::DropRequest), 2 => Just(Fault::DropReply), 2 => Just(Fault::Duplicate), 1 => Just(Fault::DelayShort), 2 => Just(Fault::DelayLong)]
}

fn step() -> impl Strategy<Value = Step> {
    prop_oneof![
        6 => (0u8..2).prop_map(|c| Step::Sync { c }),
        6 => (0u8..2).prop_map(|c| Step::Mig { c }),
        2 => Just(Step::SyncAndMig),
        2 => (0u8..2).prop_map(|c| Step::Detect { c }),
        2 => (0u8..2).prop_map(|c| Step::Handle { c }),
        2 => any::<u8>().prop_map(|k| Step::ScaleOut { k }),
        1 => any::<u8>().prop_map(|k| Step::ScaleDown { k }),
        1 => any::<u8>().prop_map(|p| Step::Restart { p }),
        1 => any::<u8>().prop_map(|p| Step::Kill { p }),
        3 => (1u16..400).prop_map(|ms| Step::Pause { ms }),
        2 => any::<u8>().prop_map(|k| Step::ReplayCommit { k }),
    ]
}

/// scale out, commit everything, scale back in (the same ranges move back), with stale commit
/// requests of the first migration arriving during the second
fn there_and_back() -> impl Strategy<Value = Vec<Step>> {
    (any::<u8>(), prop::collection::vec(any::<u8>(), 1..4), prop::collection::vec(step(), 0..6)).prop_map(|(k, replays, mut tail)| {
        let mut v = vec![
            Step::ScaleOut { k },
            Step::Sync { c: 0 },
            Step::Pause { ms: 300 },
            Step::Mig { c: 0 },
            Step::Sync { c: 0 },
            Step::Mig { c: 0 },
            Step::Sync { c: 0 },
            Step::ScaleDown { k: 0 },
            Step::Sync { c: 0 },
        ];
        for r in replays {
            v.push(Step::ReplayCommit { k: r });
        }
        v.push(Step::Pause { ms: 300 });
        v.push(Step::Mig { c: 1 });
        v.append(&mut tail);
        v
    })
}

pub fn strategy() -> impl Strategy<Value = CCase> {
    (
        prop::collection::vec(2u8..=3, 3..=4),
        prop_oneof![Just(0u64), Just(1u64), Just(2u64)],
        any::<bool>(),
        (1u8..=2, prop_oneof![4 => prop::collection::vec(step(), 4..22), 1 => there_and_back()]),
        prop::collection::vec((0u8..10, prop_oneof![3 => Just(255u8), 2 => 0u8..8], 1u8..5, fault_kind()), 0..=3),
        prop_oneof![2 => Just(None), 1 => (0u8..22, 1u8..20).prop_map(Some)],
    )
        .prop_map(|(hosts, migration_limit, compress, (chunks, mut steps), faults, crash)| {
            let mut all = vec![Step::Create { chunks }, Step::Sync { c: 0 }];
            all.append(&mut steps);
            CCase {
                hosts,
                migration_limit,
                compress,
                steps: all,
                faults: faults.into_iter().map(|(kind, target, occurrence, fault)| FaultSpec { kind, target, occurrence, fault }).collect(),
                crash,
            }
        })
}

/// the reference script for the exhaustive single-fault / single-crash enumeration
pub fn reference_steps() -> Vec<Step> {
    vec![
        Step::Create { chunks: 1 },
        Step::Sync { c: 0 },
        Step::ScaleOut { k: 0 },
        Step::Sync { c: 0 },
        Step::Pause { ms: 200 },
        Step::Mig { c: 0 },
        Step::Sync { c: 0 },
        Step::Mig { c: 0 },
    ]
}

/// second reference script: a proxy dies, is detected by both coordinators, failed over and replaced
pub fn reference_steps_failover() -> Vec<Step> {
    vec![
        Step::Create { chunks: 2 },
        Step::Sync { c: 0 },
        Step::Kill { p: 0 },
        Step::Detect { c: 0 },
        Step::Detect { c: 1 },
        Step::Handle { c: 0 },
        Step::Sync { c: 0 },
        Step::Sync { c: 1 },
    ]
}

/// third reference script: scale-in of a two-chunk cluster under migration_limit 1
pub fn reference_steps_scale_down() -> Vec<Step> {
    vec![
        Step::Create { chunks: 2 },
        Step::Sync { c: 0 },
        Step::ScaleDown { k: 0 },
        Step::Sync { c: 0 },
        Step::Pause { ms: 200 },
        Step::Mig { c: 0 },
        Step::Sync { c: 0 },
        Step::Pause { ms: 200 },
        Step::Mig { c: 1 },
        Step::Sync { c: 0 },
    ]
}

pub fn enumerated_cases() -> Vec<CCase> {
    let mut out = vec![];
    let bases = [
        CCase { hosts: vec![2, 2, 2], migration_limit: 0, compress: false, steps: reference_steps(), faults: vec![], crash: None },
        CCase { hosts: vec![2, 2, 2], migration_limit: 0, compress: true, steps: reference_steps_failover(), faults: vec![], crash: None },
        CCase { hosts: vec![2, 2, 2], migration_limit: 1, compress: false, steps: reference_steps_scale_down(), faults: vec![], crash: None },
    ];
    for (bi, base) in bases.iter().enumerate() {
        // every single fault: kind x occurrence (to anybody) x fault type
        for kind in 0..FAULT_KINDS.len() as u8 {
            for occurrence in 1..=(if bi == 0 { 8u8 } else { 5u8 }) {
                for fault in [Fault::DropRequest, Fault::DropReply, Fault::Duplicate, Fault::DelayShort, Fault::DelayLong] {
                    let mut c = base.clone();
                    c.faults = vec![FaultSpec { kind, target: 255, occurrence, fault }];
                    out.push(c);
                }
            }
        }
        // every single crash point: step x call number
        for s in 1..base.steps.len() as u8 {
            for call in 1..=(if bi == 0 { 24u8 } else { 16u8 }) {
                let mut c = base.clone();
                c.crash = Some((s, call));
                out.push(c);
            }
        }
    }
    out
}

/// thorough tier: every PAIR of faults (kind x occurrence 1..3 x {drop request, drop reply, delay}) of the first reference script
pub fn enumerated_pairs() -> Vec<CCase> {
    let base = CCase { hosts: vec![2, 2, 2], migration_limit: 0, compress: false, steps: reference_steps(), faults: vec![], crash: None };
    let mut singles = vec![];
    for kind in 0..FAULT_KINDS.len() as u8 {
        for occurrence in 1..=3u8 {
            for fault in [Fault::DropRequest, Fault::DropReply, Fault::DelayLong] {
                singles.push(FaultSpec { kind, target: 255, occurrence, fault });
            }
        }
    }
    let mut out = vec![];
    for i in 0..singles.len() {
        for j in i + 1..singles.len() {
            if singles[i].kind == singles[j].kind && singles[i].occurrence == singles[j].occurrence {
                continue;
            }
            let mut c = base.clone();
            c.faults = vec![singles[i].clone(), singles[j].clone()];
            out.push(c);
        }
    }
    out
}

// ---------------------------------------------------------------------------
// the world
// ---------------------------------------------------------------------------

struct CW {
    world: World,
    svc: Arc<MemBrokerService>,
    broker: Arc<FaultyBroker>,
    ctl: Arc<CrashCtl>,
    compress: bool,
    /// proxies by index (registration order)
    addrs: Vec<String>,
    killed: BTreeSet<String>,
    /// last GETEPOCH seen per proxy (reset on restart)
    last_epoch: BTreeMap<String, u64>,
}

impl CW {
    fn coord_net(&self) -> Arc<CoordNet> {
        Arc::new(CoordNet { net: self.world.net.clone(), ctl: self.ctl.clone() })
    }

    async fn store(&self) -> VStore {
        let s = self.svc.get_all_data().await.expect("get_all_data");
        serde_json::from_value(serde_json::to_value(&s).expect("ser")).expect("VStore")
    }

    async fn sync_round(&self) {
        let b = self.broker.clone();
        let sync = ProxyMetaRespSynchronizer::new(BrokerOrderedProxiesRetriever::new(b.clone()), BrokerMetaRetriever::new(b), ProxyMetaRespSender::new(self.coord_net(), self.compress));
        let mut s = sync.run();
        while s.next().await.is_some() {}
    }

    async fn mig_round(&self) {
        let b = self.broker.clone();
        let n = self.coord_net();
        let sync = ParMigrationStateSynchronizer::new(
            BrokerProxiesRetriever::new(b.clone()),
            MigrationStateRespChecker::new(n.clone()),
            BrokerMigrationCommitter::new(b.clone()),
            BrokerMetaRetriever::new(b),
            ProxyMetaRespSender::new(n, self.compress),
        );
        let mut s = sync.run();
        while s.next().await.is_some() {}
    }

    async fn detect_round(&self, c: u8) {
        let b = self.broker.clone();
        let d = ParFailureDetector::new(BrokerProxiesRetriever::new(b.clone()), PingFailureDetector::new(self.coord_net()), BrokerFailureReporter::new(format!("coord{}", c), b));
        let _ = d.run().await;
    }

    async fn handle_round(&self) {
        let b = self.broker.clone();
        let h = ParFailureHandler::new(BrokerProxyFailureRetriever::new(b.clone()), ReplaceNodeHandler::new(b));
        let mut s = h.run();
        while s.next().await.is_some() {}
    }

    /// run a coordinator round; it is abandoned (future dropped) if the crash point is hit
    async fn round<F: Future<Output = ()>>(&self, f: F) -> bool {
        let crashed = self.ctl.notify.notified();
        tokio::pin!(crashed);
        // the crash notification is polled first so that it is registered before the round runs
        let r = tokio::select! {
            biased;
            _ = &mut crashed => true,
            r = tokio::time::timeout(Duration::from_secs(600), f) => {
                if r.is_err() {
                    ROUND_TIMEOUTS.fetch_add(1, Ordering::SeqCst);
                }
                false
            }
        };
        // a crashed coordinator is replaced by a fresh instance for the next round
        self.ctl.crashed.store(false, Ordering::SeqCst);
        r
    }

    async fn epochs(&mut self, when: &str) -> Result<(), Fail> {
        for a in self.addrs.clone() {
            if self.killed.contains(&a) {
                continue;
            }
            let r = self.world.once(&a, &cmd(&["UMCTL", "GETEPOCH"])).await;
            let Resp::Integer(i) = &r else { continue };
            let e: u64 = std::str::from_utf8(i).ok().and_then(|s| s.parse().ok()).unwrap_or(0);
            let last = self.last_epoch.get(&a).copied().unwrap_or(0);
            ensure!(
                e >= last,
                "C07:proxy-epoch-regressed",
                "{}: proxy {} reported epoch {} earlier and reports {} now (it was not restarted in between): metadata was replaced by an older version",
                when,
                a,
                last,
                e
            );
            self.last_epoch.insert(a, e);
        }
        Ok(())
    }
}

fn quiet_broker_cfg(case: &CCase) -> BrokerCfg {
    BrokerCfg { hosts: case.hosts.clone(), migration_limit: case.migration_limit, ordered: false, quorum: 1, ttl: 3600 }
}

async fn run(case: &CCase, obs: &mut Obs) -> Result<(), Fail> {
    let cfg = quiet_broker_cfg(case);
    let svc = Arc::new(brokersim::new_service(&cfg, None).map_err(|e| Fail::new("harness:broker", e))?);
    let _ = broker_config;
    let world = World::new();
    let ctl = Arc::new(CrashCtl::default());
    let broker = Arc::new(FaultyBroker::new(svc.clone(), world.net.clone(), ctl.clone()));
    let mut cw = CW { world, svc: svc.clone(), broker, ctl, compress: case.compress, addrs: vec![], killed: BTreeSet::new(), last_epoch: BTreeMap::new() };
    // register proxies, create their world instances
    let opts = ProxyOpts::default();
    for (h, n) in case.hosts.iter().enumerate() {
        for i in 0..*n {
            let (addr, nodes) = brokersim::proxy_addr(h as u8, i as u32);
            let payload = serde_json::json!({"proxy_address": addr, "nodes": nodes, "host": brokersim::host_name(h as u8), "index": null});
            svc.add_proxy(serde_json::from_value(payload).expect("payload")).await.map_err(|e| Fail::new("harness:add_proxy", e.to_string()))?;
            cw.world.net.add_proxy(&addr, &opts);
            for nd in nodes.iter() {
                cw.world.net.add_redis(nd, i as u64);
            }
            cw.addrs.push(addr);
        }
    }
    // install the fault plan
    for f in &case.faults {
        let kind = FAULT_KINDS[f.kind as usize % FAULT_KINDS.len()].to_string();
        let to = if f.target == 255 { "*".to_string() } else { cw.addrs[f.target as usize % cw.addrs.len()].clone() };
        cw.world.net.gate.faults.lock().insert((kind, to, f.occurrence as u64), f.fault);
    }
    let mut had_migration = false;
    let mut had_failover = false;
    let mut crashed_once = false;
    for (i, st) in case.steps.iter().enumerate() {
        // arm the crash point for this step
        if let Some((s, call)) = case.crash {
            if s as usize == i && !crashed_once {
                cw.ctl.calls.store(0, Ordering::SeqCst);
                cw.ctl.crash_at.store(call as u64, Ordering::SeqCst);
            }
        }
        let crashed = match st {
            Step::Create { chunks } => {
                let _ = svc.add_cluster("c0".into(), *chunks as usize * 4).await;
                false
            }
            Step::ScaleOut { k } => {
                let store = cw.store().await;
                let free = store.free_healthy().len();
                let chunks = 1 + (*k as usize) % (free / 2).max(1).min(2);
                let mut crashed_here = false;
                if svc.auto_add_nodes("c0".into(), chunks * 4).await.is_ok() {
                    // the new proxies get their metadata before slots start moving to them
                    crashed_here = cw.round(cw.sync_round()).await;
                    if svc.migrate_slots("c0".into()).await.is_ok() {
                        had_migration = true;
                    }
                }
                crashed_here
            }
            Step::ScaleDown { k } => {
                let store = cw.store().await;
                let chunks = store.clusters.get("c0").map(|c| c.chunks.len()).unwrap_or(0);
                if chunks >= 2 {
                    let target = 1 + (*k as usize) % (chunks - 1);
                    if svc.migrate_slots_to_scale_down("c0".into(), target * 4).await.is_ok() {
                        had_migration = true;
                    }
                }
                false
            }
            Step::Sync { .. } => cw.round(cw.sync_round()).await,
            Step::Mig { .. } => {
                cw.world.net.gate.mark("ROUND:mig:start");
                let r = cw.round(cw.mig_round()).await;
                cw.world.net.gate.mark(if r { "ROUND:mig:crashed" } else { "ROUND:mig:end" });
                r
            }
            Step::SyncAndMig => cw.round(async { futures::join!(cw.sync_round(), cw.mig_round()); }).await,
            Step::Detect { c } => cw.round(cw.detect_round(*c)).await,
            Step::Handle { .. } => {
                let before = cw.store().await;
                let r = cw.round(cw.handle_round()).await;
                let after = cw.store().await;
                if before.clusters.get("c0").map(|c| c.chunks.iter().map(|x| x.role_position.clone()).collect::<Vec<_>>()) != after.clusters.get("c0").map(|c| c.chunks.iter().map(|x| x.role_position.clone()).collect::<Vec<_>>()) {
                    had_failover = true;
                }
                r
            }
            Step::Restart { p } => {
                let a = cw.addrs[*p as usize % cw.addrs.len()].clone();
                if !cw.killed.contains(&a) {
                    cw.world.net.add_proxy(&a, &opts);
                    cw.last_epoch.remove(&a);
                    obs.class("proxy-restarted");
                }
                false
            }
            Step::Kill { p } => {
                let a = cw.addrs[*p as usize % cw.addrs.len()].clone();
                cw.world.net.gate.down.lock().insert(a.clone());
                cw.killed.insert(a);
                obs.class("proxy-killed");
                false
            }
            Step::Pause { ms } => {
                tokio::time::sleep(Duration::from_millis(*ms as u64)).await;
                false
            }
            Step::ReplayCommit { k } => {
                let sent = cw.broker.sent.lock().clone();
                if !sent.is_empty() {
                    let meta = sent[(*k as usize) % sent.len()].clone();
                    let key = format!("{}", meta.slot_range.range_list);
                    let epoch = meta.slot_range.tag.get_migration_meta().map(|m| m.epoch).unwrap_or(0);
                    let already = cw.broker.commits.lock().contains(&(key.clone(), epoch));
                    obs.class(if already { "stale-commit-replayed(after-its-commit)" } else { "commit-replayed(before-its-commit)" });
                    let store = cw.store().await;
                    let same_range_running = store.clusters.values().any(|c| c.chunks.iter().any(|ch| ch.migrating_slots.iter().flatten().any(|m| format_ranges(&m.range_list) == key && m.meta.epoch != epoch)));
                    if same_range_running {
                        obs.class("stale-commit-replayed-while-the-same-range-migrates-again");
                    }
                    if cw.svc.commit_migration(meta).await.is_ok() {
                        ensure!(
                            !already,
                            "C07:migration-committed-twice",
                            "a delayed duplicate of the commit request for migration {} (migration epoch {}) was accepted by the broker although that migration had been committed before{}",
                            key,
                            epoch,
                            if same_range_running { "; it ended a NEWER, unfinished migration of the same range" } else { "" }
                        );
                        cw.broker.commits.lock().push((key, epoch));
                    }
                }
                false
            }
        };
        if crashed {
            crashed_once = true;
            obs.class("coordinator-crashed-mid-round");
            // the coordinator restarts: later rounds are made by a fresh instance
            cw.ctl.crash_at.store(0, Ordering::SeqCst);
            cw.ctl.crashed.store(false, Ordering::SeqCst);
        }
        cw.ctl.crash_at.store(0, Ordering::SeqCst);
        tokio::time::sleep(Duration::from_millis(5)).await;
        cw.epochs(&format!("after step {} ({:?})", i, st)).await?;
    }
    let hits = cw.world.net.gate.fault_hits.lock().clone();
    for (k, _, _, f) in &hits {
        obs.class(format!("fault-hit:{}:{:?}", k, f));
    }
    if (!hits.is_empty() || crashed_once) && (had_migration || had_failover) {
        obs.nontrivial = true;
    }
    if had_migration {
        obs.class("script:migration");
    }
    if had_failover {
        obs.class("script:failover");
    }
    // faults stop: clean cycles until converged (messages still in flight land first)
    cw.world.net.gate.faults.lock().clear();
    if hits.iter().any(|(_, _, _, f)| f.delay().is_some()) {
        tokio::time::sleep(Duration::from_millis(2500)).await;
        cw.epochs("after the delayed messages landed").await?;
        obs.class("delayed-message-delivered-late");
    }
    const K: usize = 6;
    let mut converged_after = None;
    let mut last_diag = String::new();
    let mut history: Vec<String> = vec![];
    for cycle in 1..=4 * K {
        cw.round(cw.detect_round(0)).await;
        cw.round(cw.handle_round()).await;
        cw.round(cw.sync_round()).await;
        tokio::time::sleep(Duration::from_millis(300)).await;
        cw.round(cw.mig_round()).await;
        cw.round(cw.sync_round()).await;
        tokio::time::sleep(Duration::from_millis(50)).await;
        cw.epochs(&format!("clean cycle {}", cycle)).await?;
        match converged(&cw).await {
            Ok(()) => {
                converged_after = Some(cycle);
                break;
            }
            Err(d) => {
                history.push(d.clone());
                last_diag = d;
            }
        }
    }
    match converged_after {
        Some(c) => {
            obs.maximum("clean_cycles_needed", c as u64);
            if c > K {
                obs.class("converged-later-than-K");
            }
        }
        None => {
            // stuck only if the last K cycles changed nothing
            let stuck = history.len() >= K && history[history.len() - K..].iter().all(|h| *h == last_diag);
            if stuck {
                fail!(
                    "C07:not-converged",
                    "after the faults stopped, {} clean coordinator cycles (detect, handle, sync, migration sync, sync) did not bring the system to the broker's view and the last {} cycles changed nothing: {}",
                    4 * K,
                    K,
                    last_diag
                );
            }
            obs.class("inconclusive:still-moving-after-4K-cycles");
        }
    }
    // every finished migration was committed exactly once
    let commits = cw.broker.commits.lock().clone();
    let mut seen = BTreeSet::new();
    for c in &commits {
        ensure!(seen.insert(c.clone()), "C07:migration-committed-twice", "migration {:?} was successfully committed twice on the broker", c);
    }
    if !commits.is_empty() {
        obs.class("migration-committed");
    }
    // destination before source after a commit (in rounds without faults this is part of the property)
    check_dst_before_src(&cw, &hits, crashed_once)?;
    Ok(())
}

/// all reachable non-failed proxies hold exactly the broker's current view
async fn converged(cw: &CW) -> Result<(), String> {
    let store = cw.store().await;
    for a in &cw.addrs {
        if cw.killed.contains(a) || store.failed_proxies.contains(a) || !store.all_proxies.contains_key(a) {
            continue;
        }
        let view = match cw.svc.get_proxy_by_address(a).await {
            Ok(Some(p)) => p,
            _ => continue,
        };
        let r = cw.world.once(a, &cmd(&["UMCTL", "GETEPOCH"])).await;
        let e: u64 = match &r {
            Resp::Integer(i) => std::str::from_utf8(i).ok().and_then(|s| s.parse().ok()).unwrap_or(0),
            _ => return Err(format!("{} does not answer GETEPOCH: {}", a, show_resp(&r))),
        };
        if e != view.get_epoch() {
            return Err(format!("proxy {} holds epoch {}, the broker's view for it has epoch {}", a, e, view.get_epoch()));
        }
        // replication roles
        let vp: brokersim::VProxy = serde_json::from_value(serde_json::to_value(&view).expect("ser")).expect("VProxy");
        let r = cw.world.once(a, &cmd(&["UMCTL", "INFOREPL"])).await;
        let mut got: BTreeSet<(String, String)> = BTreeSet::new();
        if let Resp::Arr(undermoon::protocol::Array::Arr(items)) = &r {
            for it in items {
                if let Resp::Arr(undermoon::protocol::Array::Arr(lines)) = it {
                    let ls: Vec<String> = lines
                        .iter()
                        .filter_map(|l| match l {
                            Resp::Bulk(undermoon::protocol::BulkStr::Str(s)) => Some(String::from_utf8_lossy(s).trim().to_string()),
                            _ => None,
                        })
                        .collect();
                    let role = ls.iter().find_map(|l| l.strip_prefix("role:")).unwrap_or("").to_string();
                    let node = ls.iter().find_map(|l| l.strip_prefix("node_address:")).unwrap_or("").to_string();
                    got.insert((role, node));
                }
            }
        }
        let want: BTreeSet<(String, String)> = vp.nodes.iter().map(|n| (if vp.cluster_name.is_none() { "master".to_string() } else { n.repl.role.clone() }, n.address.clone())).collect();
        if got != want {
            return Err(format!("proxy {} replication roles {:?} differ from the broker's view {:?}", a, got, want));
        }
        // routing of probe slots
        if vp.cluster_name.is_some() {
            for slot in [0usize, 3000, 5461, 8191, 8192, 12000, 16383] {
                let key = &slot_keys()[slot];
                let reply = cw.world.once(a, &cmdb(&[b"GET", key])).await;
                // owner(s) according to the per-proxy view
                let mut owners: Vec<String> = vec![];
                for n in &vp.nodes {
                    for sr in &n.slots {
                        if sr.range_list.iter().any(|(x, y)| slot >= *x && slot <= *y) {
                            owners.push(a.clone());
                        }
                    }
                }
                for p in &vp.peers {
                    for sr in &p.slots {
                        if sr.range_list.iter().any(|(x, y)| slot >= *x && slot <= *y) {
                            owners.push(p.proxy_address.clone());
                        }
                    }
                }
                let ok = match parse_moved(&reply) {
                    Some((_, to)) => owners.contains(&to),
                    None => !matches!(reply, Resp::Error(_)) && owners.contains(a) || matches!(&reply, Resp::Error(e) if !owners.contains(a) && String::from_utf8_lossy(e).contains("connect")),
                };
                if !ok {
                    return Err(format!("proxy {} routes slot {} as {} but the broker's view names {:?}", a, slot, show_resp(&reply), owners));
                }
            }
        }
    }
    // finished migrations are gone from the broker view
    for a in &cw.addrs {
        if cw.killed.contains(a) || store.failed_proxies.contains(a) {
            continue;
        }
        if let Resp::Arr(undermoon::protocol::Array::Arr(v)) = cw.world.once(a, &cmd(&["UMCTL", "INFOMGR"])).await {
            if !v.is_empty() {
                return Err(format!("proxy {} still reports {} finished migration(s) that the broker has not committed", a, v.len()));
            }
        }
    }
    Ok(())
}

fn check_dst_before_src(cw: &CW, hits: &[(String, String, u64, Fault)], _crashed: bool) -> Result<(), Fail> {
    let trace = cw.world.net.gate.trace.lock().clone();
    let details = cw.world.net.gate.details.lock().clone();
    let marks = cw.broker.commit_marks.lock().clone();
    // lone migration rounds (no other round runs concurrently in a `Mig` step) that ended normally
    let mut i = 0;
    while i < trace.len() {
        if trace[i].2 == "ROUND:mig:start" {
            let Some(len) = trace[i..].iter().position(|t| t.2 == "ROUND:mig:end" || t.2 == "ROUND:mig:crashed") else { break };
            let end = i + len;
            let ended_normally = trace[end].2 == "ROUND:mig:end";
            let commits: Vec<&(usize, String, String, u64)> = marks.iter().filter(|m| m.0 > i && m.0 <= end).collect();
            // the clause is stated for executions not hit by a fault; with several commits in one
            // round the flows share proxies and their messages legitimately interleave
            let faulted = !hits.is_empty();
            if ended_normally && commits.len() == 1 && !faulted {
                let (at, dst, src, epoch) = commits[0];
                let first = |to: &str| -> Option<usize> {
                    (*at..end).find(|j| trace[*j].2 == "UMCTL:SETCLUSTER" && trace[*j].1 == to && details[*j].parse::<u64>().map(|e| e >= *epoch).unwrap_or(false))
                };
                let (d, s_) = (first(dst), first(src));
                if let Some(si) = s_ {
                    ensure!(
                        matches!(d, Some(di) if di < si),
                        "C07:source-updated-before-destination",
                        "after committing a migration (dst {}, src {}, cluster epoch {}) the migration synchronizer delivered the post-commit metadata to the source (trace #{}) before the destination ({:?})",
                        dst,
                        src,
                        epoch,
                        si,
                        d
                    );
                }
            }
            i = end;
        }
        i += 1;
    }
    Ok(())
}

// ---------------------------------------------------------------------------
// C13, second sentence: after a broker restart from an earlier snapshot and epoch recovery, the
// next sync rounds bring every reachable proxy to the recovered view (uses the same world)
// ---------------------------------------------------------------------------

#[derive(Debug, Clone, Serialize, Deserialize)]
pub struct AdoptCase {
    pub hosts: Vec<u8>,
    pub migration_limit: u64,
    pub compress: bool,
    /// fault-free script that builds the pre-crash history (proxies synced along the way)
    pub steps: Vec<Step>,
    /// the snapshot the restarted broker loads: taken after this step (mapped onto 0..=len-1)
    pub snapshot_at: u16,
    /// recovery asks the proxies for their epochs (true) or is skipped (false = the negative control
    /// is not generated; kept for replay files)
    pub recover: bool,
}

pub fn adopt_strategy() -> impl Strategy<Value = AdoptCase> {
    let step = prop_oneof![
        5 => (0u8..2).prop_map(|c| Step::Sync { c }),
        5 => (0u8..2).prop_map(|c| Step::Mig { c }),
        1 => (0u8..2).prop_map(|c| Step::Detect { c }),
        1 => (0u8..2).prop_map(|c| Step::Handle { c }),
        3 => any::<u8>().prop_map(|k| Step::ScaleOut { k }),
        1 => any::<u8>().prop_map(|k| Step::ScaleDown { k }),
        1 => any::<u8>().prop_map(|p| Step::Kill { p }),
        2 => (100u16..400).prop_map(|ms| Step::Pause { ms }),
    ];
    (prop::collection::vec(2u8..=3, 3..=4), prop_oneof![Just(0u64), Just(1u64), Just(2u64)], any::<bool>(), (1u8..=2, prop::collection::vec(step, 3..16)), any::<u16>()).prop_map(
        |(hosts, migration_limit, compress, (chunks, mut steps), snapshot_at)| {
            let mut all = vec![Step::Create { chunks }, Step::Sync { c: 0 }];
            all.append(&mut steps);
            AdoptCase { hosts, migration_limit, compress, steps: all, snapshot_at, recover: true }
        },
    )
}

async fn run_adopt(case: &AdoptCase, obs: &mut Obs) -> Result<(), Fail> {
    let cfg = BrokerCfg { hosts: case.hosts.clone(), migration_limit: case.migration_limit, ordered: false, quorum: 1, ttl: 3600 };
    let svc = Arc::new(brokersim::new_service(&cfg, None).map_err(|e| Fail::new("harness:broker", e))?);
    let world = World::new();
    let ctl = Arc::new(CrashCtl::default());
    let broker = Arc::new(FaultyBroker::new(svc.clone(), world.net.clone(), ctl.clone()));
    let mut cw = CW { world, svc: svc.clone(), broker, ctl, compress: case.compress, addrs: vec![], killed: BTreeSet::new(), last_epoch: BTreeMap::new() };
    let opts = ProxyOpts::default();
    for (h, n) in case.hosts.iter().enumerate() {
        for i in 0..*n {
            let (addr, nodes) = brokersim::proxy_addr(h as u8, i as u32);
            let payload = serde_json::json!({"proxy_address": addr, "nodes": nodes, "host": brokersim::host_name(h as u8), "index": null});
            svc.add_proxy(serde_json::from_value(payload).expect("payload")).await.map_err(|e| Fail::new("harness:add_proxy", e.to_string()))?;
            cw.world.net.add_proxy(&addr, &opts);
            for nd in nodes.iter() {
                cw.world.net.add_redis(nd, i as u64);
            }
            cw.addrs.push(addr);
        }
    }
    // pre-crash history; a snapshot (what the broker would have persisted) after every step
    let mut snapshots: Vec<(serde_json::Value, bool)> = vec![];
    for st in &case.steps {
        match st {
            Step::Create { chunks } => {
                let _ = cw.svc.add_cluster("c0".into(), *chunks as usize * 4).await;
            }
            Step::ScaleOut { k } => {
                let store = cw.store().await;
                let free = store.free_healthy().len();
                let chunks = 1 + (*k as usize) % (free / 2).max(1).min(2);
                if cw.svc.auto_add_nodes("c0".into(), chunks * 4).await.is_ok() {
                    cw.round(cw.sync_round()).await;
                    let _ = cw.svc.migrate_slots("c0".into()).await;
                }
            }
            Step::ScaleDown { k } => {
                let store = cw.store().await;
                let chunks = store.clusters.get("c0").map(|c| c.chunks.len()).unwrap_or(0);
                if chunks >= 2 {
                    let target = 1 + (*k as usize) % (chunks - 1);
                    let _ = cw.svc.migrate_slots_to_scale_down("c0".into(), target * 4).await;
                }
            }
            Step::Sync { .. } => {
                cw.round(cw.sync_round()).await;
            }
            Step::Mig { .. } => {
                cw.round(cw.mig_round()).await;
            }
            Step::SyncAndMig => {
                cw.round(async { futures::join!(cw.sync_round(), cw.mig_round()); }).await;
            }
            Step::Detect { c } => {
                cw.round(cw.detect_round(*c)).await;
            }
            Step::Handle { .. } => {
                cw.round(cw.handle_round()).await;
            }
            Step::Restart { .. } | Step::ReplayCommit { .. } => {}
            Step::Kill { p } => {
                let a = cw.addrs[*p as usize % cw.addrs.len()].clone();
                cw.world.net.gate.down.lock().insert(a.clone());
                cw.killed.insert(a);
            }
            Step::Pause { ms } => tokio::time::sleep(Duration::from_millis(*ms as u64)).await,
        }
        tokio::time::sleep(Duration::from_millis(5)).await;
        let data = cw.svc.get_all_data().await.map_err(|e| Fail::new("harness:get_all_data", format!("{:?}", e)))?;
        let store = cw.store().await;
        let mid = store.clusters.values().any(|c| c.chunks.iter().any(|ch| ch.migrating_slots.iter().any(|m| !m.is_empty()) || ch.role_position != "Normal"));
        snapshots.push((serde_json::to_value(&data).expect("ser"), mid));
    }
    // the broker crashes and restarts from an earlier snapshot (any prefix of its history)
    let k = pick(case.snapshot_at, snapshots.len());
    let (snap, mid) = snapshots[k].clone();
    if k + 1 < snapshots.len() {
        obs.class("snapshot:older-than-the-crash-state");
    }
    if mid {
        obs.class("snapshot:mid-migration-or-flipped-chunk");
    }
    let svc2 = Arc::new(brokersim::new_service(&cfg, Some(snap)).map_err(|e| Fail::new("harness:restart", e))?);
    cw.svc = svc2.clone();
    cw.broker = Arc::new(FaultyBroker::new(svc2.clone(), cw.world.net.clone(), cw.ctl.clone()));
    // epoch recovery with the largest epoch held by any reachable proxy (what recover_epoch collects)
    let mut max_epoch = 0u64;
    let mut held: BTreeMap<String, u64> = BTreeMap::new();
    for a in &cw.addrs {
        if cw.killed.contains(a) {
            continue;
        }
        if let Resp::Integer(i) = cw.world.once(a, &cmd(&["UMCTL", "GETEPOCH"])).await {
            let e: u64 = std::str::from_utf8(&i).ok().and_then(|s| s.parse().ok()).unwrap_or(0);
            held.insert(a.clone(), e);
            max_epoch = max_epoch.max(e);
        }
    }
    let snap_epoch = cw.store().await.global_epoch;
    if max_epoch > snap_epoch {
        obs.class("proxies-ahead-of-the-snapshot");
        if mid || k + 1 < snapshots.len() {
            obs.nontrivial = true;
        }
    }
    if case.recover {
        svc2.verif_recover_epoch_with(max_epoch).await.map_err(|e| Fail::new("harness:recover", format!("{:?}", e)))?;
    }
    // every view served now is above every proxy's installed epoch
    for (a, e) in &held {
        if let Ok(Some(p)) = svc2.get_proxy_by_address(a).await {
            ensure!(p.get_epoch() > *e, "C13:view-epoch-not-above-proxy-epochs", "after restart from the snapshot of step {} and recovery with max epoch {}, the view served for {} has epoch {} but the proxy holds {}", k, max_epoch, a, p.get_epoch(), e);
        }
    }
    // the next sync rounds: every reachable proxy adopts the recovered view
    const K: usize = 6;
    let mut history: Vec<String> = vec![];
    let mut done = None;
    for cycle in 1..=4 * K {
        cw.round(cw.detect_round(0)).await;
        cw.round(cw.handle_round()).await;
        cw.round(cw.sync_round()).await;
        tokio::time::sleep(Duration::from_millis(300)).await;
        cw.round(cw.mig_round()).await;
        cw.round(cw.sync_round()).await;
        tokio::time::sleep(Duration::from_millis(50)).await;
        cw.epochs(&format!("after recovery, cycle {}", cycle)).await.map_err(|f| Fail::new("C13:proxy-epoch-regressed-after-recovery", f.message))?;
        match converged(&cw).await {
            Ok(()) => {
                done = Some(cycle);
                break;
            }
            Err(d) => history.push(d),
        }
    }
    match done {
        Some(c) => obs.maximum("cycles_until_adopted", c as u64),
        None => {
            let last = history.last().cloned().unwrap_or_default();
            let stuck = history.len() >= K && history[history.len() - K..].iter().all(|h| *h == last);
            if stuck {
                fail!(
                    "C13:recovered-view-not-adopted",
                    "broker restarted from the snapshot taken after step {} of {} (epoch {}), recovery ran with max proxy epoch {}; {} clean coordinator cycles later the proxies still do not hold the recovered view, the last {} cycles changed nothing: {}",
                    k,
                    snapshots.len(),
                    snap_epoch,
                    max_epoch,
                    4 * K,
                    K,
                    last
                );
            }
            obs.class("inconclusive:still-moving-after-4K-cycles");
        }
    }
    // the slot partition holds again in the recovered broker
    let store = cw.store().await;
    if let Some(c) = store.clusters.get("c0") {
        let view: brokersim::VCluster = match cw.svc.get_cluster_by_name("c0").await {
            Ok(Some(cl)) => serde_json::from_value(serde_json::to_value(&cl).expect("ser")).expect("VCluster"),
            _ => return Ok(()),
        };
        let _ = c;
        let mut owner = vec![0u8; 16384];
        for n in &view.nodes {
            for sr in &n.slots {
                if sr.tag.kind() == "importing" {
                    continue;
                }
                for (a, b) in &sr.range_list {
                    for s in *a..=*b {
                        owner[s] += 1;
                    }
                }
            }
        }
        let bad = owner.iter().position(|x| *x != 1);
        ensure!(bad.is_none(), "C13:partition-broken-after-recovery", "after recovery and {} cycles slot {:?} has {} owners in the cluster view", done.unwrap_or(0), bad, bad.map(|b| owner[b]).unwrap_or(0));
    }
    Ok(())
}

pub fn check_adopt(case: &AdoptCase, obs: &mut Obs) -> Result<(), Fail> {
    let rt = tokio::runtime::Builder::new_current_thread().enable_all().start_paused(true).build().expect("rt");
    let r = rt.block_on(run_adopt(case, obs));
    drop(rt);
    r
}

pub const RULE_ADOPT: &str = "the coordinator world of C07 (real broker, 6..12 real proxies, real coordinator components) without faults: a generated script (create, scale out/in with migrations, sync/migration/detect/handle rounds, proxy kills, pauses) builds the pre-crash history with the proxies synced along the way; the broker is then replaced by a NEW service loaded from the snapshot taken after a generated earlier step (any prefix, incl. mid-migration / flipped chunks); recovery runs with the largest epoch any reachable proxy reports (hook H2); oracle: every served view is above every proxy's epoch, no proxy's epoch decreases, and within 24 clean coordinator cycles every reachable proxy known to the recovered broker holds exactly its view (epoch, replication roles, routing probes, no uncommitted finished migration; violation only if the last 6 cycles changed nothing), and the cluster view partitions the 16384 slots; non-trivial = proxies were ahead of the restored snapshot and the snapshot is older than the crash state or taken mid-migration; distinct = hash of the case";

pub fn check(case: &CCase, obs: &mut Obs) -> Result<(), Fail> {
    let rt = tokio::runtime::Builder::new_current_thread().enable_all().start_paused(true).build().expect("rt");
    let r = rt.block_on(run(case, obs));
    drop(rt);
    r
}

pub const RULE: &str = "a world with the real in-memory broker, 6..12 REAL proxies with Redis stand-ins and coordinator rounds built from the REAL components (hook H1: ProxyMetaRespSynchronizer, ParMigrationStateSynchronizer, ParFailureDetector, ParFailureHandler with the real retrievers/senders/checkers/committers), one or two coordinators, sync and migration rounds also concurrently; scripts of 4..22 steps: create, scale out (+migrate), scale down, rounds, proxy restart with empty state, proxy kill, pauses; fault plan of <=3 faults addressed by call signature x occurrence (broker calls get_proxy/get_proxy_addresses/commit/replace/get_failures/add_failure, SETREPL/SETCLUSTER/INFOMGR/PING to a proxy): drop request, drop reply (effect happens, caller sees an error), duplicate, delay by 20 ms / 2 s of virtual time (the caller sees an error now, the request lands later: reordered / stale delivery); optional coordinator crash = the round future is dropped at its n-th outgoing call; [enumerated] EVERY single fault (10 call kinds x occurrences 1..8 (1..5) x 5 fault types) and EVERY single crash point (step x call 1..24 (1..16)) of three reference scripts (scale-out with migration; proxy death detected by two coordinators, failover and replacement; scale-in under migration_limit 1); [enumerated-pairs, thorough] every pair of faults (kind x occurrence 1..3 x {drop request, drop reply, 2 s delay}) of the first script; oracle: after every step no proxy's epoch decreases except across its own restart; no migration is committed twice; after the faults stop, clean cycles until every reachable non-failed proxy holds the broker's view (epoch, replication roles, routing probes) and no finished migration is left uncommitted - a violation only if still not converged after 24 cycles with the last 6 changing nothing; non-trivial = a fault hit or a crash happened and the script contains a migration or failover; distinct = hash of the case";

pub fn run_prop(ctx: &Ctx, findings: &Findings) -> PropReport {
    let mut subs = vec![];
    if let Some(path) = &ctx.replay {
        let v: serde_json::Value = serde_json::from_str(&std::fs::read_to_string(path).expect("replay file")).expect("json");
        for name in ["scripts", "enumerated", "enumerated-pairs"] {
            if let Some(r) = replay_case::<CCase>(ctx, findings, name, &v, &check) {
                subs.push(r);
            }
        }
    } else {
        let _ = slot_keys();
        subs.push(drive(ctx, findings, "scripts", RULE, ctx.cases(2500, 50000), strategy, &check));
        let cases = enumerated_cases();
        let exhaustive = true;
        subs.push(drive_enum(ctx, findings, "enumerated", RULE, cases, exhaustive, &check));
        if ctx.tier == Tier::Thorough {
            subs.push(drive_enum(ctx, findings, "enumerated-pairs", RULE, enumerated_pairs(), true, &check));
        }
    }
    PropReport {
        level: "fault_enumeration",
        subs,
        assumptions: vec![
            "'eventually' is checked as bounded convergence: a violation is declared only for a stuck state (24 clean cycles, the last 6 identical)".into(),
            "destination-before-source is only demanded of sync_migration_state executions not hit by a fault; not of the periodic full sync".into(),
            "the broker is reached through the coordinator's broker traits (in-process), not over HTTP".into(),
        ],
        extra: Default::default(),
    }
}

/// the text form `RangeList`'s Display produces
fn format_ranges(r: &brokersim::VRanges) -> String {
    let parts: Vec<String> = r.iter().map(|(a, b)| if a == b { format!("{}", a) } else { format!("{}-{}", a, b) }).collect();
    format!("[{}]", parts.join(", "))
}
