//! C03 - live slot migration neither loses, duplicates nor resurrects data.
use crate::engines::lin::{self, Call, Event, Ret, State};
use crate::engines::migworld::*;
use crate::engines::world::*;
use crate::fw::*;
use crate::props::c09::{ref_slot, slot_keys};
use crate::{ensure, fail};
use proptest::prelude::*;
use serde::{Deserialize, Serialize};
use std::collections::BTreeMap;
use std::sync::atomic::{AtomicU64, Ordering};
use std::sync::Arc;
use std::time::Duration;
use undermoon::protocol::{Array, BulkStr, Resp, RespVec};

#[derive(Debug, Clone, Serialize, Deserialize)]
pub enum OpKind {
    Get,
    Set,
    SetNx,
    Append,
    Incr,
    /// read the counter that INCR works on
    GetCtr,
    Del,
    Exists,
    Expire,
    /// MGET of the key and its same-slot sibling
    Mget,
    /// MSET of the key and its same-slot sibling
    Mset,
    Unlink,
    GetSet,
    SetEx,
    Pexpire,
    Strlen,
    /// one-field hash key derived from the key (same slot): HSET / HGET / HDEL
    HSet,
    HGet,
    HDel,
    /// set / sorted-set / list keys derived from the key (same slot) that hold at most the member "m":
    /// every remaining command family of `requires_blocking_migration` gets exercised
    SAdd,
    SRem,
    SPop,
    SCard,
    ZAdd,
    ZRem,
    ZPopMin,
    ZPopMax,
    ZRemRangeByRank,
    ZRemRangeByScore,
    ZRemRangeByLex,
    ZCard,
    /// list holding at most one element: RPUSH only if absent is not expressible, so the list key is
    /// (re)created by `LPush1` = LTRIM to empty followed by nothing; see below
    LRem,
    LTrimEmpty,
    LPop,
    RPop,
    LLen,
    /// EXPIREAT / PEXPIREAT with a time in the past deletes the key
    ExpireAtPast,
    PexpireAtPast,
    /// EVAL scripts: delete / read KEYS[1]
    EvalDel,
    EvalGet,
}

#[derive(Debug, Clone, Serialize, Deserialize)]
pub struct COp {
    pub key: u8,
    pub kind: OpKind,
    /// 0 source, 1 destination, 2 bystander
    pub start: u8,
    /// virtual microseconds to wait before the operation
    pub pause: u32,
}

#[derive(Debug, Clone, Serialize, Deserialize)]
pub struct DCase {
    pub backend_conn_num: u8,
    pub active_redirection: bool,
    pub bystander: bool,
    pub scan_count: u8,
    /// number of keys inside / outside the migrating range
    pub keys_in: u8,
    pub keys_out: u8,
    /// initial presence per key (cycled)
    pub init: Vec<bool>,
    pub clients: Vec<Vec<COp>>,
    pub mig_start: u32,
    pub commit_pause: u32,
    /// gate delay table (virtual microseconds)
    pub delays: Vec<u32>,
    /// order in which the migration metadata reaches the proxies
    pub install_order: u8,
}

fn op_strategy() -> impl Strategy<Value = COp> {
    (
        0u8..12,
        prop_oneof![
            6 => Just(OpKind::Get),
            5 => Just(OpKind::Set),
            1 => Just(OpKind::SetNx),
            2 => Just(OpKind::Append),
            2 => Just(OpKind::Incr),
            1 => Just(OpKind::GetCtr),
            3 => Just(OpKind::Del),
            1 => Just(OpKind::Exists),
            1 => Just(OpKind::Expire),
            1 => Just(OpKind::Mget),
            1 => Just(OpKind::Mset),
            2 => Just(OpKind::Unlink),
            1 => Just(OpKind::GetSet),
            1 => Just(OpKind::SetEx),
            1 => Just(OpKind::Pexpire),
            1 => Just(OpKind::Strlen),
            2 => Just(OpKind::HSet),
            2 => Just(OpKind::HGet),
            2 => Just(OpKind::HDel),
            2 => Just(OpKind::SAdd),
            1 => Just(OpKind::SRem),
            1 => Just(OpKind::SPop),
            1 => Just(OpKind::SCard),
            2 => Just(OpKind::ZAdd),
            1 => Just(OpKind::ZRem),
            1 => Just(OpKind::ZPopMin),
            1 => Just(OpKind::ZPopMax),
            1 => Just(OpKind::ZRemRangeByRank),
            1 => Just(OpKind::ZRemRangeByScore),
            1 => Just(OpKind::ZRemRangeByLex),
            1 => Just(OpKind::ZCard),
            1 => Just(OpKind::LRem),
            1 => Just(OpKind::LTrimEmpty),
            1 => Just(OpKind::LPop),
            1 => Just(OpKind::RPop),
            1 => Just(OpKind::LLen),
            1 => Just(OpKind::ExpireAtPast),
            1 => Just(OpKind::PexpireAtPast),
            1 => Just(OpKind::EvalDel),
            1 => Just(OpKind::EvalGet),
        ],
        0u8..3,
        prop_oneof![3 => 0u32..2000, 2 => 0u32..20000, 1 => 0u32..200000],
    )
        .prop_map(|(key, kind, start, pause)| COp { key, kind, start, pause })
}

pub fn strategy(max_delay_us: u32) -> impl Strategy<Value = DCase> {
    (
        (1u8..=3, any::<bool>(), any::<bool>(), prop_oneof![Just(1u8), Just(2u8), Just(16u8)]),
        (4u8..=8, 2u8..=4, prop::collection::vec(prop::bool::weighted(0.7), 1..8)),
        prop::collection::vec(prop::collection::vec(op_strategy(), 3..15), 1..=4),
        (0u32..30000, 0u32..30000, prop::collection::vec(prop_oneof![3 => Just(0u32), 3 => 0u32..2000, 2 => 0u32..max_delay_us.max(1)], 1..24), 0u8..3),
    )
        .prop_map(|((backend_conn_num, active_redirection, bystander, scan_count), (keys_in, keys_out, init), clients, (mig_start, commit_pause, delays, install_order))| DCase {
            backend_conn_num,
            active_redirection,
            bystander,
            scan_count,
            keys_in,
            keys_out,
            init,
            clients,
            mig_start,
            commit_pause,
            delays,
            install_order,
        })
}

/// key i of the case: the first `keys_in` keys hash into the migrating range, the rest outside
fn key_of(case: &DCase, i: u8, cfg: &MigCfg) -> (Vec<u8>, bool) {
    let n = case.keys_in + case.keys_out;
    let i = i % n;
    if i < case.keys_in {
        let width = cfg.range.1 - cfg.range.0 + 1;
        let slot = cfg.range.0 + (i as usize * (width / case.keys_in as usize)).min(width - 1);
        (tagged(slot, 0), true)
    } else {
        // outside: slots below the range on the source
        let j = (i - case.keys_in) as usize;
        (tagged((j * 331) % cfg.range.0.max(1), 0), false)
    }
}

/// "{rep}n": a key in the given slot; n selects siblings of the same slot
fn tagged(slot: usize, n: usize) -> Vec<u8> {
    let rep: Vec<u8> = slot_keys()[slot].clone();
    if rep.contains(&b'{') {
        let open = rep.iter().position(|b| *b == b'{').expect("open");
        let close = rep.iter().position(|b| *b == b'}').expect("close");
        let mut v = b"s".to_vec();
        v.extend_from_slice(&rep[open..=close]);
        v.extend_from_slice(n.to_string().as_bytes());
        v
    } else {
        let mut v = b"{".to_vec();
        v.extend_from_slice(&rep);
        v.extend_from_slice(b"}");
        v.extend_from_slice(n.to_string().as_bytes());
        v
    }
}

fn counter_of(k: &[u8]) -> Vec<u8> {
    let mut v = k.to_vec();
    v.pop();
    v.push(b'9');
    v
}

/// same-slot keys for the one-member set ('5'), sorted set ('6') and list ('7') derived from a key
fn coll_of(k: &[u8], kind: &[u8]) -> Vec<u8> {
    let mut v = k.to_vec();
    v.pop();
    v.push(match kind {
        b"set" => b'5',
        b"zset" => b'6',
        _ => b'7',
    });
    v
}

fn hash_of(k: &[u8]) -> Vec<u8> {
    let mut v = k.to_vec();
    v.pop();
    v.push(b'8');
    v
}

fn sibling_of(k: &[u8]) -> Vec<u8> {
    let mut v = k.to_vec();
    let last = v.pop().unwrap_or(b'0');
    v.push(if last == b'0' { b'1' } else { b'0' });
    v
}

struct Recorder {
    clock: Arc<AtomicU64>,
    events: parking_lot::Mutex<Vec<(Vec<u8>, Event)>>,
    next_id: AtomicU64,
}

fn to_ret(kind_call: &Call, r: &RespVec) -> Ret {
    match (kind_call, r) {
        (_, Resp::Error(_)) => Ret::Unknown,
        (Call::Get | Call::HGet | Call::GetSet(_), Resp::Bulk(BulkStr::Nil)) => Ret::Val(None),
        (Call::Get | Call::HGet | Call::GetSet(_), Resp::Bulk(BulkStr::Str(s))) => Ret::Val(Some(s.clone())),
        (Call::Set(_) | Call::ClearOk, Resp::Simple(_)) => Ret::Ok,
        (Call::PopMember, Resp::Bulk(BulkStr::Nil)) => Ret::Val(None),
        (Call::PopMember, Resp::Bulk(BulkStr::Str(s))) => Ret::Val(Some(s.clone())),
        (Call::PopMember, Resp::Arr(Array::Arr(items))) => match items.first() {
            None => Ret::Val(None),
            Some(Resp::Bulk(BulkStr::Str(m))) => Ret::Val(Some(m.clone())),
            Some(_) => Ret::Unknown,
        },
        (Call::PopMember, Resp::Arr(Array::Nil)) => Ret::Val(None),
        (_, Resp::Integer(i)) => std::str::from_utf8(i).ok().and_then(|s| s.parse::<i64>().ok()).map(Ret::Int).unwrap_or(Ret::Unknown),
        _ => Ret::Unknown,
    }
}

pub struct RunResult {
    pub mig: Arc<Mig>,
    pub events: Vec<(Vec<u8>, Event)>,
    pub window: (u64, u64),
    pub finished: bool,
}

/// runs the world of a case; shared by C03 and C19 (which adds TTLs)
pub async fn run_world(case: &DCase, ttl_of: &dyn Fn(u8) -> Option<Duration>, initial_values: &mut BTreeMap<Vec<u8>, State>) -> Result<RunResult, Fail> {
    let cfg = MigCfg {
        opts: ProxyOpts { backend_conn_num: case.backend_conn_num as usize, active_redirection: case.active_redirection, ..ProxyOpts::default() },
        bystander: case.bystander,
        scan_count: case.scan_count as u64,
        ..MigCfg::default()
    };
    let mig = Arc::new(Mig::build(cfg.clone()).await.map_err(|e| Fail::new("harness:build", e))?);
    // initial data directly into the source stand-in
    let nkeys = case.keys_in + case.keys_out;
    for i in 0..nkeys {
        let (k, _) = key_of(case, i, &cfg);
        for (j, kk) in [k.clone(), sibling_of(&k)].into_iter().enumerate() {
            let present = case.init[(i as usize * 2 + j) % case.init.len()];
            if present {
                let v = format!("init-{}-{}", i, j).into_bytes();
                let expire_at = ttl_of(i).map(|d| tokio::time::Instant::now() + d);
                mig.src_redis.store.lock().insert(kk.clone(), Entry { val: Val::Str(v.clone()), expire_at });
                initial_values.insert(kk, Some(v));
            } else {
                initial_values.insert(kk, None);
            }
        }
        // the one-member collections derived from the key (C03 programs only; C19 leaves them absent)
        for (j, kind) in [&b"set"[..], &b"zset"[..], &b"list"[..]].into_iter().enumerate() {
            let kx = coll_of(&k, kind);
            let present = ttl_of(i).is_none() && case.init[(i as usize * 3 + j + 1) % case.init.len()];
            if present {
                let val = match j {
                    0 => Val::Set([b"m".to_vec()].into_iter().collect()),
                    1 => Val::ZSet([(b"m".to_vec(), 1i64)].into_iter().collect()),
                    _ => Val::List([b"m".to_vec()].into_iter().collect()),
                };
                mig.src_redis.store.lock().insert(kx.clone(), Entry { val, expire_at: None });
                initial_values.insert(kx, Some(b"m".to_vec()));
            } else {
                initial_values.insert(kx, None);
            }
        }
    }
    mig.world.net.gate.set_delays(case.delays.clone());
    let clock = Arc::new(AtomicU64::new(1));
    let rec = Arc::new(Recorder { clock: clock.clone(), events: parking_lot::Mutex::new(vec![]), next_id: AtomicU64::new(0) });
    let proxies = [SRC, DST, if case.bystander { BY } else { DST }];
    let mut handles = vec![];
    for (ci, ops) in case.clients.iter().enumerate() {
        let mig = mig.clone();
        let rec = rec.clone();
        let ops = ops.clone();
        let case = case.clone();
        let cfg = cfg.clone();
        handles.push(tokio::spawn(async move {
            for (oi, op) in ops.iter().enumerate() {
                tokio::time::sleep(Duration::from_micros(op.pause as u64)).await;
                let (k, _) = key_of(&case, op.key, &cfg);
                let k2 = sibling_of(&k);
                let uniq = format!("c{}o{}", ci, oi).into_bytes();
                let (command, calls): (Cmd, Vec<(Vec<u8>, Call)>) = match op.kind {
                    OpKind::Get => (cmdb(&[b"GET", &k]), vec![(k.clone(), Call::Get)]),
                    OpKind::Set => (cmdb(&[b"SET", &k, &uniq]), vec![(k.clone(), Call::Set(uniq.clone()))]),
                    OpKind::SetNx => (cmdb(&[b"SETNX", &k, &uniq]), vec![(k.clone(), Call::SetNx(uniq.clone()))]),
                    OpKind::Append => (cmdb(&[b"APPEND", &k, &uniq]), vec![(k.clone(), Call::Append(uniq.clone()))]),
                    OpKind::Incr => {
                        let kc = counter_of(&k);
                        (cmdb(&[b"INCR", &kc]), vec![(kc, Call::Incr)])
                    }
                    OpKind::GetCtr => {
                        let kc = counter_of(&k);
                        (cmdb(&[b"GET", &kc]), vec![(kc, Call::Get)])
                    }
                    OpKind::Del => (cmdb(&[b"DEL", &k]), vec![(k.clone(), Call::Del)]),
                    OpKind::Exists => (cmdb(&[b"EXISTS", &k]), vec![(k.clone(), Call::Exists)]),
                    OpKind::Expire => (cmdb(&[b"EXPIRE", &k, b"1000000"]), vec![(k.clone(), Call::Touch)]),
                    OpKind::Unlink => (cmdb(&[b"UNLINK", &k]), vec![(k.clone(), Call::Del)]),
                    OpKind::GetSet => (cmdb(&[b"GETSET", &k, &uniq]), vec![(k.clone(), Call::GetSet(uniq.clone()))]),
                    OpKind::SetEx => (cmdb(&[b"SETEX", &k, b"1000000", &uniq]), vec![(k.clone(), Call::Set(uniq.clone()))]),
                    OpKind::Pexpire => (cmdb(&[b"PEXPIRE", &k, b"1000000000"]), vec![(k.clone(), Call::Touch)]),
                    OpKind::Strlen => (cmdb(&[b"STRLEN", &k]), vec![(k.clone(), Call::Strlen)]),
                    OpKind::HSet => {
                        let kh = hash_of(&k);
                        (cmdb(&[b"HSET", &kh, b"f", &uniq]), vec![(kh, Call::HSet(uniq.clone()))])
                    }
                    OpKind::HGet => {
                        let kh = hash_of(&k);
                        (cmdb(&[b"HGET", &kh, b"f"]), vec![(kh, Call::HGet)])
                    }
                    OpKind::HDel => {
                        let kh = hash_of(&k);
                        (cmdb(&[b"HDEL", &kh, b"f"]), vec![(kh, Call::HDel)])
                    }
                    OpKind::SAdd => {
                        let kx = coll_of(&k, b"set");
                        (cmdb(&[b"SADD", &kx, b"m"]), vec![(kx, Call::AddMember)])
                    }
                    OpKind::SRem => {
                        let kx = coll_of(&k, b"set");
                        (cmdb(&[b"SREM", &kx, b"m"]), vec![(kx, Call::RemoveCount)])
                    }
                    OpKind::SPop => {
                        let kx = coll_of(&k, b"set");
                        (cmdb(&[b"SPOP", &kx]), vec![(kx, Call::PopMember)])
                    }
                    OpKind::SCard => {
                        let kx = coll_of(&k, b"set");
                        (cmdb(&[b"SCARD", &kx]), vec![(kx, Call::Card)])
                    }
                    OpKind::ZAdd => {
                        let kx = coll_of(&k, b"zset");
                        (cmdb(&[b"ZADD", &kx, b"1", b"m"]), vec![(kx, Call::AddMember)])
                    }
                    OpKind::ZRem => {
                        let kx = coll_of(&k, b"zset");
                        (cmdb(&[b"ZREM", &kx, b"m"]), vec![(kx, Call::RemoveCount)])
                    }
                    OpKind::ZPopMin => {
                        let kx = coll_of(&k, b"zset");
                        (cmdb(&[b"ZPOPMIN", &kx]), vec![(kx, Call::PopMember)])
                    }
                    OpKind::ZPopMax => {
                        let kx = coll_of(&k, b"zset");
                        (cmdb(&[b"ZPOPMAX", &kx]), vec![(kx, Call::PopMember)])
                    }
                    OpKind::ZRemRangeByRank => {
                        let kx = coll_of(&k, b"zset");
                        (cmdb(&[b"ZREMRANGEBYRANK", &kx, b"0", b"-1"]), vec![(kx, Call::RemoveCount)])
                    }
                    OpKind::ZRemRangeByScore => {
                        let kx = coll_of(&k, b"zset");
                        (cmdb(&[b"ZREMRANGEBYSCORE", &kx, b"-inf", b"+inf"]), vec![(kx, Call::RemoveCount)])
                    }
                    OpKind::ZRemRangeByLex => {
                        let kx = coll_of(&k, b"zset");
                        (cmdb(&[b"ZREMRANGEBYLEX", &kx, b"-", b"+"]), vec![(kx, Call::RemoveCount)])
                    }
                    OpKind::ZCard => {
                        let kx = coll_of(&k, b"zset");
                        (cmdb(&[b"ZCARD", &kx]), vec![(kx, Call::Card)])
                    }
                    // the list key is pre-populated with the single element "m" (see the initial state);
                    // it is never pushed to, so it holds at most one element
                    OpKind::LRem => {
                        let kx = coll_of(&k, b"list");
                        (cmdb(&[b"LREM", &kx, b"0", b"m"]), vec![(kx, Call::RemoveCount)])
                    }
                    OpKind::LTrimEmpty => {
                        let kx = coll_of(&k, b"list");
                        (cmdb(&[b"LTRIM", &kx, b"1", b"0"]), vec![(kx, Call::ClearOk)])
                    }
                    OpKind::LPop => {
                        let kx = coll_of(&k, b"list");
                        (cmdb(&[b"LPOP", &kx]), vec![(kx, Call::PopMember)])
                    }
                    OpKind::RPop => {
                        let kx = coll_of(&k, b"list");
                        (cmdb(&[b"RPOP", &kx]), vec![(kx, Call::PopMember)])
                    }
                    OpKind::LLen => {
                        let kx = coll_of(&k, b"list");
                        (cmdb(&[b"LLEN", &kx]), vec![(kx, Call::Card)])
                    }
                    OpKind::ExpireAtPast => (cmdb(&[b"EXPIREAT", &k, b"1"]), vec![(k.clone(), Call::Del)]),
                    OpKind::PexpireAtPast => (cmdb(&[b"PEXPIREAT", &k, b"1000"]), vec![(k.clone(), Call::Del)]),
                    OpKind::EvalDel => (cmdb(&[b"EVAL", b"return redis.call('del',KEYS[1])", b"1", &k]), vec![(k.clone(), Call::Del)]),
                    OpKind::EvalGet => (cmdb(&[b"EVAL", b"return redis.call('get',KEYS[1])", b"1", &k]), vec![(k.clone(), Call::Get)]),
                    OpKind::Mget => (cmdb(&[b"MGET", &k, &k2]), vec![(k.clone(), Call::Get), (k2.clone(), Call::Get)]),
                    OpKind::Mset => {
                        let u2 = [uniq.clone(), b"b".to_vec()].concat();
                        (cmdb(&[b"MSET", &k, &uniq, &k2, &u2]), vec![(k.clone(), Call::Set(uniq.clone())), (k2.clone(), Call::Set(u2))])
                    }
                };
                let invoke = rec.clock.fetch_add(1, Ordering::SeqCst);
                let (reply, path) = match tokio::time::timeout(Duration::from_secs(40), follow_moved(&mig.world, proxies[op.start as usize % 3], &command, 5)).await {
                    Ok(r) => r,
                    Err(_) => (Resp::Error(b"HARNESS-TIMEOUT".to_vec()), vec![]),
                };
                let complete = rec.clock.fetch_add(1, Ordering::SeqCst);
                let who = format!("client{} op{} [{}] via {:?} -> {}", ci, oi, show_cmd(&command), path, show_resp(&reply));
                // per-key events
                let rets: Vec<Ret> = match (&op.kind, &reply) {
                    (OpKind::Mget, Resp::Arr(Array::Arr(vs))) if vs.len() == 2 => vs.iter().map(|v| to_ret(&Call::Get, v)).collect(),
                    (OpKind::Mget, _) => vec![Ret::Unknown, Ret::Unknown],
                    (OpKind::Mset, Resp::Simple(_)) => vec![Ret::Ok, Ret::Ok],
                    (OpKind::Mset, _) => vec![Ret::Unknown, Ret::Unknown],
                    _ => vec![to_ret(&calls[0].1, &reply)],
                };
                // a MOVED that could not be followed any further is an unknown outcome as well
                for ((key, call), ret) in calls.into_iter().zip(rets) {
                    let id = rec.next_id.fetch_add(1, Ordering::SeqCst) as usize;
                    rec.events.lock().push((key, Event { id, call, ret, invoke, complete, who: who.clone() }));
                }
            }
        }));
    }
    // the migration
    tokio::time::sleep(Duration::from_micros(case.mig_start as u64)).await;
    let order: &[&str] = match case.install_order {
        0 => &[DST, SRC, BY],
        1 => &[SRC, DST, BY],
        _ => &[BY, DST, SRC],
    };
    let t0 = clock.fetch_add(1, Ordering::SeqCst);
    mig.install(2, 1, 2, order).await.map_err(|e| Fail::new("harness:install", e))?;
    let finished = tokio::time::timeout(Duration::from_secs(60), async {
        loop {
            if !mig.finished(SRC).await.is_empty() && !mig.finished(DST).await.is_empty() {
                break;
            }
            tokio::time::sleep(Duration::from_millis(2)).await;
        }
    })
    .await
    .is_ok();
    let t1 = clock.fetch_add(1, Ordering::SeqCst);
    tokio::time::sleep(Duration::from_micros(case.commit_pause as u64)).await;
    if finished {
        mig.install(3, 2, 2, &[DST, SRC, BY]).await.map_err(|e| Fail::new("harness:commit", e))?;
    }
    for h in handles {
        let _ = tokio::time::timeout(Duration::from_secs(120), h).await;
    }
    tokio::time::sleep(Duration::from_secs(1)).await;
    let events = rec.events.lock().clone();
    Ok(RunResult { mig, events, window: (t0, t1), finished })
}

pub fn classify_paths(mig: &Mig, obs: &mut Obs) -> (usize, usize, usize) {
    let log = mig.src_redis.log_snapshot();
    let mut pulls = 0;
    for w in log.windows(2) {
        if upper(&w[0].cmd[0]) == "DUMP" && upper(&w[1].cmd[0]) == "PTTL" && w[0].cmd.get(1) == w[1].cmd.get(1) {
            pulls += 1;
        }
    }
    let pushes = mig.trace_count("UMSYNC", SRC);
    let scans = mig.trace_count("SCAN", SRC_NODE);
    let restores = mig.dst_redis.log_snapshot().iter().filter(|e| upper(&e.cmd[0]) == "RESTORE").count();
    if pulls > 0 {
        obs.class("transfer:pull");
    }
    if pushes > 0 {
        obs.class("transfer:push(UMSYNC)");
    }
    if restores > pulls + pushes {
        obs.class("transfer:scan");
    }
    let _ = scans;
    (restores.saturating_sub(pulls + pushes), pulls, pushes)
}

async fn run(case: &DCase, obs: &mut Obs) -> Result<(), Fail> {
    let mut initial: BTreeMap<Vec<u8>, State> = BTreeMap::new();
    let r = run_world(case, &|_| None, &mut initial).await?;
    let mig = &r.mig;
    ensure!(
        r.finished,
        "C03:migration-did-not-finish",
        "the migration did not reach SwitchCommitted on both sides within 60 virtual seconds (handshake latency is below max_blocking_time)"
    );
    let (scan_t, pull_t, push_t) = classify_paths(mig, obs);
    let kinds = [scan_t > 0, pull_t > 0, push_t > 0].iter().filter(|x| **x).count();
    // group events per key
    let mut per_key: BTreeMap<Vec<u8>, Vec<Event>> = BTreeMap::new();
    for (k, e) in &r.events {
        per_key.entry(k.clone()).or_default().push(e.clone());
    }
    let (a, b) = mig.cfg.range;
    let mut overlapping = false;
    for (k, evs) in &per_key {
        let slot = ref_slot(k);
        let in_range = slot >= a && slot <= b;
        if in_range && evs.iter().any(|e| e.invoke < r.window.1 && e.complete > r.window.0) {
            overlapping = true;
        }
        for e in evs.iter().filter(|e| e.ret == Ret::Unknown) {
            let kind = e.who.rsplit(" -> -").next().unwrap_or("?").split(|c: char| c == ' ' || c == ':').next().unwrap_or("?").to_string();
            obs.class(format!("op:unknown-outcome:{}", kind.chars().take(28).collect::<String>()));
        }
        let init = initial.get(k).cloned().unwrap_or(None);
        let out = lin::check(&init, evs);
        if !out.linearizable {
            let mut hist: Vec<&Event> = evs.iter().collect();
            hist.sort_by_key(|e| e.invoke);
            let lines: Vec<String> = hist.iter().map(|e| format!("    [{}..{}] {}", e.invoke, e.complete, e.who)).collect();
            fail!(
                "C03:not-linearizable",
                "key {:?} (slot {}, {} the migrating range), initial value {:?}: the client-visible history is not explainable by any sequential order consistent with real time (stale read, lost acknowledged write or resurrected value):\n{}",
                String::from_utf8_lossy(k),
                slot,
                if in_range { "inside" } else { "outside" },
                init.as_ref().map(|v| String::from_utf8_lossy(v).to_string()),
                lines.join("\n")
            );
        }
        // final placement and value
        let on_src = mig.src_redis.get_raw(k).map(|e| e.val);
        let on_dst = mig.dst_redis.get_raw(k).map(|e| e.val);
        let as_state = |v: &Option<Val>| -> State {
            match v {
                Some(Val::Str(s)) => Some(s.clone()),
                Some(Val::Hash(h)) => h.get(&b"f"[..]).cloned().or(Some(b"<hash without field f>".to_vec())),
                Some(Val::Set(m)) if m.len() == 1 => m.iter().next().cloned(),
                Some(Val::ZSet(z)) if z.len() == 1 => z.keys().next().cloned(),
                Some(Val::List(l)) if l.len() == 1 => l.front().cloned(),
                Some(_) => Some(b"<non-string>".to_vec()),
                None => None,
            }
        };
        let (home, other, home_name, other_name) = if in_range { (&on_dst, &on_src, "destination", "source") } else { (&on_src, &on_dst, "source", "destination") };
        ensure!(
            other.is_none(),
            "C03:key-on-wrong-node-after-commit",
            "after commit and quiescence key {:?} (slot {}, {} the range) still exists on the {} stand-in with value {:?}",
            String::from_utf8_lossy(k),
            slot,
            if in_range { "inside" } else { "outside" },
            other_name,
            as_state(other).map(|v| String::from_utf8_lossy(&v).to_string())
        );
        let fin = as_state(home);
        if !out.finals.contains(&fin) {
            let mut hist: Vec<&Event> = evs.iter().collect();
            hist.sort_by_key(|e| e.invoke);
            let lines: Vec<String> = hist.iter().map(|e| format!("    [{}..{}] {}", e.invoke, e.complete, e.who)).collect();
            fail!(
                "C03:final-value-not-admissible",
                "after commit key {:?} (slot {}) holds {:?} on the {}; the values admissible after the acknowledged history are {:?}:\n{}",
                String::from_utf8_lossy(k),
                slot,
                fin.as_ref().map(|v| String::from_utf8_lossy(v).to_string()),
                home_name,
                out.finals.iter().map(|f| f.as_ref().map(|v| String::from_utf8_lossy(v).to_string())).collect::<Vec<_>>(),
                lines.join("\n")
            );
        }
    }
    // keys that no client touched: must have moved (in range) or stayed (outside), unchanged
    for (k, init) in &initial {
        if per_key.contains_key(k) {
            continue;
        }
        let slot = ref_slot(k);
        let in_range = slot >= a && slot <= b;
        let on_src = mig.src_redis.get_raw(k);
        let on_dst = mig.dst_redis.get_raw(k);
        let (home, other) = if in_range { (on_dst, on_src) } else { (on_src, on_dst) };
        ensure!(other.is_none(), "C03:key-on-wrong-node-after-commit", "untouched key {:?} exists on the wrong node after commit", String::from_utf8_lossy(k));
        let got = home.map(|e| match e.val {
            Val::Str(s) => s,
            Val::Set(m) if m.len() == 1 => m.into_iter().next().unwrap_or_default(),
            Val::ZSet(z) if z.len() == 1 => z.into_keys().next().unwrap_or_default(),
            Val::List(l) if l.len() == 1 => l.into_iter().next().unwrap_or_default(),
            _ => b"<non-string>".to_vec(),
        });
        ensure!(
            got == *init,
            "C03:untouched-key-changed",
            "untouched key {:?} (slot {}, in range: {}) had {:?} before the migration and has {:?} after commit",
            String::from_utf8_lossy(k),
            slot,
            in_range,
            init.as_ref().map(|v| String::from_utf8_lossy(v).to_string()),
            got.as_ref().map(|v| String::from_utf8_lossy(v).to_string())
        );
    }
    if overlapping {
        obs.class("client-op-overlaps-migration-window");
    }
    if overlapping && kinds >= 2 {
        obs.nontrivial = true;
    }
    obs.class(format!("transfer-kinds:{}", kinds));
    if case.active_redirection {
        obs.class("active-redirection");
    }
    Ok(())
}

pub fn check(case: &DCase, obs: &mut Obs) -> Result<(), Fail> {
    let rt = world_runtime();
    let r = rt.block_on(run(case, obs));
    drop(rt);
    r
}

pub const RULE: &str = "a world with source, destination (and optional bystander) REAL proxies and stateful Redis stand-ins; 6..12 keys (2/3 inside the migrating range, with same-slot siblings), pre-populated or created mid-migration; 1..4 sequential clients with 3..14 operations each from {GET, SET unique, SETNX, SETEX, GETSET, APPEND, STRLEN, INCR, DEL, UNLINK, EXISTS, EXPIRE, PEXPIRE, MGET, MSET, and HSET/HGET/HDEL on a one-field hash key of the same slot} aimed at a generated start proxy (MOVED followed); the real migration (PRECHECK/PRESWITCH/scan/pull/push/FINALSWITCH) started at a generated time, metadata delivered in a generated order, committed (dst then src) after a generated pause; per-message delays from a generated table (virtual time) on every message class, scan_count in {1,2,16}, backend_conn_num 1..3, active redirection on/off; oracle (1) per-key linearizability of the client-visible history against a sequential register-with-delete model (Wing-Gong search; error replies = unknown outcome), (2) after commit: every range key only on the destination with a value admissible after the history, others only on the source, untouched keys unchanged; non-trivial = a client operation on a range key overlaps the migration window and at least two of {scan, pull, push} transfers happened; distinct = hash of the case";

pub fn run_prop(ctx: &Ctx, findings: &Findings) -> PropReport {
    let mut subs = vec![];
    if let Some(path) = &ctx.replay {
        let v: serde_json::Value = serde_json::from_str(&std::fs::read_to_string(path).expect("replay file")).expect("json");
        for name in ["worlds", "worlds-slow-net"] {
            if let Some(r) = replay_case::<DCase>(ctx, findings, name, &v, &check) {
                subs.push(r);
            }
        }
    } else {
        let _ = slot_keys();
        subs.push(drive(ctx, findings, "worlds", RULE, ctx.cases(3000, 60000), || strategy(8000), &check));
        subs.push(drive(ctx, findings, "worlds-slow-net", RULE, ctx.cases(1000, 20000), || strategy(60000), &check));
    }
    PropReport {
        level: "exploration",
        subs,
        assumptions: vec![
            "interleavings are explored at message granularity (the gate delays every message); tasks of one proxy between two awaits run in the fixed order of the single-thread runtime".into(),
            "the handshake latency stays below max_blocking_time (10 s): the deliberate 'force ahead' fallback after a blocking time-out is a fault path outside the property's quantifier".into(),
            "error replies (key-lock time-outs, exhausted redirections) count as 'outcome unknown'".into(),
        ],
        extra: Default::default(),
    }
}
