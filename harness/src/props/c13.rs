//! C13 - broker state loss is recoverable by epoch recovery.
use crate::engines::brokersim::*;
use crate::fw::*;
use crate::props::{c01, c04};
use crate::{ensure, fail};
use proptest::prelude::*;
use serde::{Deserialize, Serialize};
use std::collections::BTreeMap;

#[derive(Debug, Clone, Serialize, Deserialize)]
pub struct RCase {
    pub base: Case,
    /// where the broker "crashes": after this many operations (mapped onto 0..=len)
    pub crash_at: u16,
    /// which earlier point the restored snapshot was taken at (mapped onto 0..=crash)
    pub snapshot_at: u16,
    /// per proxy (by sorted address order, cycled): which of the views ever served for it
    /// the proxy has installed (mapped onto the list of served epochs)
    pub held: Vec<u16>,
    /// use the production recover_epoch over TCP (needs loopback responders) instead of hook H2
    pub tcp: bool,
    /// proxies (cycled) that are unreachable during recovery in the tcp variant
    pub unreachable: Vec<bool>,
    /// delayed replica-sync messages: (position in the continued history, which pre-crash snapshot) -
    /// a PUT /metadata carrying an OLD copy of the store reaches the recovered broker
    #[serde(default)]
    pub late_sync: Vec<(u16, u16)>,
}

pub fn strategy(tcp: bool) -> impl Strategy<Value = RCase> {
    (
        case_strategy(10),
        any::<u16>(),
        any::<u16>(),
        prop::collection::vec(prop_oneof![3 => Just(u16::MAX), 2 => any::<u16>()], 1..8),
        prop::collection::vec(prop::bool::weighted(0.2), 1..5),
        prop::collection::vec((any::<u16>(), any::<u16>()), 0..3),
    )
        .prop_map(move |(base, crash_at, snapshot_at, held, unreachable, late_sync)| RCase { base, crash_at, snapshot_at, held, tcp, unreachable, late_sync })
}

fn responders(rt: &tokio::runtime::Runtime, epochs: &BTreeMap<String, u64>) -> Vec<tokio::task::JoinHandle<()>> {
    use tokio::io::{AsyncReadExt, AsyncWriteExt};
    let mut hs = vec![];
    for (addr, epoch) in epochs {
        let addr = addr.clone();
        let epoch = *epoch;
        let listener = rt.block_on(async { tokio::net::TcpListener::bind(&addr).await });
        let Ok(listener) = listener else { continue };
        hs.push(rt.spawn(async move {
            loop {
                let Ok((mut sock, _)) = listener.accept().await else { return };
                tokio::spawn(async move {
                    let mut buf = vec![0u8; 256];
                    loop {
                        match sock.read(&mut buf).await {
                            Ok(0) | Err(_) => return,
                            Ok(_) => {
                                // any complete command is answered with the epoch
                                let reply = format!(":{}\r\n", epoch);
                                if sock.write_all(reply.as_bytes()).await.is_err() {
                                    return;
                                }
                            }
                        }
                    }
                });
            }
        }));
    }
    hs
}

pub fn check_case(case: &RCase, obs: &mut Obs) -> Result<(), Fail> {
    let cfg = &case.base.cfg;
    let mut sim = Sim::new(cfg);
    if case.tcp {
        // real sockets: a paused clock would fire the client's 1 s timeout before the I/O completes
        sim.rt = tokio::runtime::Builder::new_current_thread().enable_all().build().expect("rt");
    }
    let ops = &case.base.ops;
    let crash = pick(case.crash_at, ops.len() + 1);
    let snap_at = pick(case.snapshot_at, crash + 1);
    // every epoch ever served per address, and the snapshots after every prefix
    let mut served: BTreeMap<String, Vec<u64>> = BTreeMap::new();
    let mut snapshots = vec![sim.snapshot_json()];
    let mut pre = sim.views();
    let record = |v: &Views, served: &mut BTreeMap<String, Vec<u64>>| {
        for (a, p) in &v.proxies {
            let e = served.entry(a.clone()).or_default();
            if e.last() != Some(&p.epoch) {
                e.push(p.epoch);
            }
        }
    };
    record(&pre, &mut served);
    let mut mid_migration = false;
    let mut mid_failover = false;
    for op in ops.iter().take(crash) {
        if matches!(op, Op::AutoScale { .. } | Op::AutoScaleSmart { .. }) && case.tcp {
            continue;
        }
        let rop = sim.resolve(op, &pre);
        let _ = sim.apply(&rop);
        pre = sim.views();
        record(&pre, &mut served);
        snapshots.push(sim.snapshot_json());
    }
    let snap = snapshots[snap_at.min(snapshots.len() - 1)].clone();
    let snap_store: VStore = serde_json::from_value(snap.clone()).map_err(|e| Fail::new("harness:snapshot", e.to_string()))?;
    if snap_store.clusters.values().any(|c| c.is_migrating()) {
        mid_migration = true;
    }
    if snap_store.clusters.values().any(|c| c.chunks.iter().any(|ch| ch.role_position != "Normal")) || !snap_store.failed_proxies.is_empty() {
        mid_failover = true;
    }
    // epochs installed on proxies
    let mut held: BTreeMap<String, u64> = BTreeMap::new();
    for (i, (a, list)) in served.iter().enumerate() {
        let sel = case.held[i % case.held.len()];
        let idx = if sel == u16::MAX { list.len() - 1 } else { pick(sel, list.len()) };
        held.insert(a.clone(), list[idx]);
    }
    let max_held = held.values().copied().max().unwrap_or(0);
    let newest_snapshot_epoch = snap_store.global_epoch;
    if max_held > newest_snapshot_epoch {
        obs.class("snapshot-older-than-newest-proxy-epoch");
        if mid_migration || mid_failover {
            obs.nontrivial = true;
        }
    }
    if mid_migration {
        obs.class("snapshot-mid-migration");
    }
    if mid_failover {
        obs.class("snapshot-mid-failover");
    }
    if held.keys().any(|a| !snap_store.all_proxies.contains_key(a)) {
        obs.class("proxy-unknown-to-snapshot");
    }

    // crash + restart from the snapshot + epoch recovery
    sim.restart_from(snap).map_err(|e| Fail::new("C13:restart-refused", format!("restart from own snapshot failed: {}", e)))?;
    let mut effective_max = max_held;
    if case.tcp {
        // only proxies the restored broker knows and can reach are asked
        let mut reachable: BTreeMap<String, u64> = BTreeMap::new();
        for (i, (a, e)) in held.iter().enumerate() {
            if snap_store.all_proxies.contains_key(a) && !case.unreachable[i % case.unreachable.len()] {
                reachable.insert(a.clone(), *e);
            }
        }
        effective_max = reachable.values().copied().max().unwrap_or(0);
        let hs = responders(&sim.rt, &reachable);
        let bound = hs.len();
        let r = sim.rt.block_on(sim.svc.recover_epoch());
        for h in hs {
            h.abort();
        }
        let failed = r.map_err(|e| Fail::new("C13:recover-refused", e.to_string()))?;
        if bound < reachable.len() {
            obs.class("tcp:some-responders-could-not-bind(skipped)");
            return Ok(());
        }
        let expected_failed = snap_store.all_proxies.len() - reachable.len();
        ensure!(
            failed.len() == expected_failed,
            "C13:recover-failed-list",
            "recover_epoch reported {} unreachable proxies, expected {} ({:?})",
            failed.len(),
            expected_failed,
            failed
        );
        obs.class("recovered-via:tcp");
    } else {
        sim.rt
            .block_on(sim.svc.verif_recover_epoch_with(max_held))
            .map_err(|e| Fail::new("C13:recover-refused", e.to_string()))?;
        obs.class("recovered-via:hook");
    }
    let v = sim.views();
    let check_epochs = |v: &Views, when: &str| -> Result<(), Fail> {
        for (a, p) in &v.proxies {
            ensure!(
                p.epoch > effective_max,
                "C13:view-epoch-not-above-proxy-epochs",
                "{}: view served for {} has epoch {} but a proxy holds epoch {} (snapshot epoch {}, restored after step {}, crash after step {})",
                when,
                a,
                p.epoch,
                effective_max,
                newest_snapshot_epoch,
                snap_at,
                crash
            );
        }
        for (n, c) in &v.clusters {
            ensure!(
                c.epoch > effective_max,
                "C13:view-epoch-not-above-proxy-epochs",
                "{}: cluster view {} has epoch {} but a proxy holds epoch {}",
                when,
                n,
                c.epoch,
                effective_max
            );
        }
        if v.epoch <= effective_max {
            fail!("C13:global-epoch-not-above", "{}: global epoch {} <= largest proxy epoch {}", when, v.epoch, effective_max);
        }
        Ok(())
    };
    check_epochs(&v, "right after recovery")?;
    c01::check_views(&v, &mut Obs::default())?;
    // the rest of the history continues on the recovered broker: slot partition and epoch
    // versioning hold from there on
    let mut oracle = c04::C04Oracle::default();
    oracle.init(cfg, &v, &mut Obs::default())?;
    let mut pre = v;
    let remaining = ops.len() - crash;
    for (i, op) in ops.iter().enumerate().skip(crash) {
        // a delayed replica-sync message with an older copy of the store arrives now
        for (at, which) in &case.late_sync {
            if crash + pick(*at, remaining.max(1)) == i {
                let old = snapshots[pick(*which, snapshots.len())].clone();
                // only copies the broker itself classifies as older (smaller global epoch) are delivered: a
                // pre-crash copy whose global epoch is not smaller than the recovered one (registrations and
                // failure reports raise the global epoch without touching any view) is, to the broker, a
                // legitimate newer store - replacing the state by it is outside this property
                let old_epoch = old.get("global_epoch").and_then(|x| x.as_u64()).unwrap_or(u64::MAX);
                if old_epoch >= sim.views().epoch {
                    obs.class("late-replica-sync:copy-not-older-than-recovered-state(skipped)");
                    continue;
                }
                let accepted = match serde_json::from_value(old) {
                    Ok(store) => sim.rt.block_on(sim.svc.restore_metadata(store)).is_ok(),
                    Err(_) => false,
                };
                obs.class(if accepted { "late-replica-sync:accepted" } else { "late-replica-sync:refused" });
                let now = sim.views();
                check_epochs(&now, "after a delayed replica-sync message with an older copy of the store")?;
                c01::check_views(&now, &mut Obs::default())?;
                if accepted {
                    oracle = c04::C04Oracle::default();
                    oracle.init(cfg, &now, &mut Obs::default())?;
                }
                pre = now;
            }
        }
        if matches!(op, Op::AutoScale { .. } | Op::AutoScaleSmart { .. }) && case.tcp {
            continue;
        }
        let rop = sim.resolve(op, &pre);
        let res = sim.apply(&rop);
        let post = sim.views();
        check_epochs(&post, "after further operations")?;
        c01::check_views(&post, &mut Obs::default())?;
        let st = Step { index: i, pre: &pre, rop: &rop, res: &res, post: &post, cfg };
        oracle.step(&st, &mut Obs::default())?;
        pre = post;
    }
    Ok(())
}

pub const RULE: &str = "generated broker histories; a crash point after any prefix; restart of a NEW MemBrokerService from the snapshot taken after any earlier prefix (production restart path); every proxy holds the epoch of some view that was ever served for it (generated, biased to the newest); epoch recovery with the largest held epoch through hook H2 (bulk) and through the production recover_epoch over loopback TCP responders (some unreachable); during the continued history up to two delayed replica-sync messages (PUT /metadata with a pre-crash copy of the store) arrive; oracle: every view served afterwards (right away, after the rest of the history and after every such message) has an epoch above every asked proxy's epoch, C01 partition and C04 versioning hold from there; non-trivial = snapshot strictly older than the newest proxy epoch and taken mid-migration or mid-failover; distinct = hash of the generated case";

pub fn run(ctx: &Ctx, findings: &Findings) -> PropReport {
    let mut subs = vec![];
    if let Some(path) = &ctx.replay {
        let v: serde_json::Value = serde_json::from_str(&std::fs::read_to_string(path).expect("replay file")).expect("json");
        for name in ["recover", "recover-tcp"] {
            if let Some(r) = replay_case::<RCase>(ctx, findings, name, &v, &check_case) {
                subs.push(r);
            }
        }
        if let Some(r) = replay_case::<crate::props::c07::AdoptCase>(ctx, findings, "adopt", &v, &crate::props::c07::check_adopt) {
            subs.push(r);
        }
    } else {
        let n = ctx.cases(20000, 400000);
        subs.push(drive(ctx, findings, "recover", RULE, n, || strategy(false), &check_case));
        // real sockets on fixed loopback addresses: one worker
        let tcp_ctx = Ctx {
            prop: ctx.prop.clone(),
            tier: ctx.tier,
            seed: ctx.seed,
            replay: None,
            verif_dir: ctx.verif_dir.clone(),
            workers: 1,
            started: ctx.started,
            scale: ctx.scale,
        };
        let n = ctx.cases(60, 600);
        subs.push(drive(&tcp_ctx, findings, "recover-tcp", RULE, n, || strategy(true), &check_case));
        subs.push(drive(ctx, findings, "adopt", crate::props::c07::RULE_ADOPT, ctx.cases(1500, 40000), crate::props::c07::adopt_strategy, &crate::props::c07::check_adopt));
    }
    PropReport {
        level: "exploration",
        subs,
        assumptions: vec![
            "[adopt] recovery is driven through hook H2 with the epochs the world's proxies report; proxies unknown to the restored snapshot are outside 'reachable proxies' (the recovered broker cannot name them)".into(),
            "in the TCP variant only proxies known to the restored snapshot and reachable are asked, exactly like production; the guarantee is then relative to those".into(),
        ],
        extra: Default::default(),
    }
}
