//! C14 - CLUSTER NODES and CLUSTER SLOTS advertise each slot once and agree with routing.
use crate::fw::*;
use crate::props::c09::slot_keys;
use crate::{ensure, fail};
use proptest::prelude::*;
use serde::{Deserialize, Serialize};
use std::collections::{BTreeMap, HashMap};
use std::convert::TryFrom;
use std::sync::{Arc, Mutex};
use undermoon::common::cluster::{ClusterName, MigrationMeta, Range, RangeList, SlotRange, SlotRangeTag};
use undermoon::common::config::ClusterConfig;
use undermoon::common::proto::{ClusterMapFlags, ProxyClusterMeta};
use undermoon::migration::task::MigrationState;
use undermoon::protocol::{Array, BulkStr, Resp, RespPacket, RespVec};
use undermoon::proxy::backend::{CmdTask, SenderBackendError};
use undermoon::proxy::cluster::ClusterBackendMap;
use undermoon::proxy::command::{new_command_pair, Command};
use undermoon::proxy::sender::{CmdTaskSender, CmdTaskSenderFactory};
use undermoon::proxy::service::ClusterNodesVersion;
use undermoon::proxy::session::CmdCtx;

/// parsed topology: slot -> advertised address, from NODES and from SLOTS
pub struct Topology {
    pub nodes: Vec<Vec<String>>, // per slot: addresses advertising it in NODES
    pub slots: Vec<Vec<String>>, // per slot: addresses advertising it in SLOTS
    pub myself: Vec<String>,
}

pub fn parse_topology(nodes_text: &str, slots: &RespVec, v2: bool) -> Result<Topology, Fail> {
    let mut t = Topology { nodes: vec![vec![]; 16384], slots: vec![vec![]; 16384], myself: vec![] };
    let mut ids: BTreeMap<String, String> = BTreeMap::new();
    for line in nodes_text.lines() {
        if line.trim().is_empty() {
            continue;
        }
        let f: Vec<&str> = line.split(' ').collect();
        ensure!(f.len() >= 8, "C14:nodes-line-format", "CLUSTER NODES line has {} fields: '{}'", f.len(), line);
        let id = f[0].to_string();
        let mut addr = f[1].to_string();
        if v2 {
            ensure!(addr.ends_with("@5299"), "C14:nodes-line-format", "NODES v2 address without cport: '{}'", line);
            addr = addr.trim_end_matches("@5299").to_string();
        } else {
            ensure!(!addr.contains('@'), "C14:nodes-line-format", "NODES v1 address with cport: '{}'", line);
        }
        if let Some(prev) = ids.insert(id.clone(), addr.clone()) {
            ensure!(prev == addr, "C14:node-id-collision", "node id {} used for {} and {}", id, prev, addr);
        }
        if f[2].split(',').any(|x| x == "myself") {
            t.myself.push(addr.clone());
        }
        ensure!(f[2].split(',').any(|x| x == "master"), "C14:nodes-line-format", "node without master flag: '{}'", line);
        for r in &f[8..] {
            let (a, b) = match r.split_once('-') {
                Some((a, b)) => (a.parse::<usize>(), b.parse::<usize>()),
                None => (r.parse::<usize>(), r.parse::<usize>()),
            };
            let (Ok(a), Ok(b)) = (a, b) else { fail!("C14:nodes-line-format", "bad slot token '{}' in '{}'", r, line) };
            ensure!(a <= b && b < 16384, "C14:nodes-line-format", "bad slot range '{}' in '{}'", r, line);
            for s in a..=b {
                t.nodes[s].push(addr.clone());
            }
        }
    }
    let Resp::Arr(Array::Arr(entries)) = slots else { fail!("C14:slots-format", "CLUSTER SLOTS is not an array") };
    for e in entries {
        let Resp::Arr(Array::Arr(f)) = e else { fail!("C14:slots-format", "CLUSTER SLOTS entry is not an array") };
        ensure!(f.len() >= 3, "C14:slots-format", "CLUSTER SLOTS entry has {} fields", f.len());
        let num = |r: &RespVec| match r {
            Resp::Integer(i) => std::str::from_utf8(i).ok().and_then(|s| s.parse::<usize>().ok()),
            _ => None,
        };
        let (Some(a), Some(b)) = (num(&f[0]), num(&f[1])) else { fail!("C14:slots-format", "CLUSTER SLOTS entry without integer bounds") };
        let Resp::Arr(Array::Arr(n)) = &f[2] else { fail!("C14:slots-format", "CLUSTER SLOTS node is not an array") };
        let host = match n.first() {
            Some(Resp::Bulk(BulkStr::Str(h))) => String::from_utf8_lossy(h).to_string(),
            _ => fail!("C14:slots-format", "CLUSTER SLOTS node without host"),
        };
        let port = match n.get(1) {
            Some(Resp::Integer(p)) => String::from_utf8_lossy(p).to_string(),
            _ => fail!("C14:slots-format", "CLUSTER SLOTS node without port"),
        };
        let id = match n.get(2) {
            Some(Resp::Bulk(BulkStr::Str(i))) => String::from_utf8_lossy(i).to_string(),
            _ => fail!("C14:slots-format", "CLUSTER SLOTS node without id"),
        };
        let addr = format!("{}:{}", host, port);
        if let Some(a2) = ids.get(&id) {
            ensure!(*a2 == addr, "C14:node-id-mismatch", "node id {} is {} in NODES and {} in SLOTS", id, a2, addr);
        }
        ensure!(a <= b && b < 16384, "C14:slots-format", "bad range {}-{}", a, b);
        for s in a..=b {
            t.slots[s].push(addr.clone());
        }
    }
    Ok(t)
}

/// `expected(slot)` = set of admissible addresses (empty = slot not covered by the metadata)
pub fn check_topology(t: &Topology, announce: &str, expected: &dyn Fn(usize) -> Vec<String>, who: &str) -> Result<(), Fail> {
    ensure!(
        t.myself.len() == 1 && t.myself[0] == announce,
        "C14:myself-line",
        "{}: expected exactly one 'myself' line with address {}, found {:?}",
        who,
        announce,
        t.myself
    );
    for s in 0..16384 {
        let want = expected(s);
        if want.is_empty() {
            ensure!(
                t.nodes[s].is_empty() && t.slots[s].is_empty(),
                "C14:uncovered-slot-advertised",
                "{}: slot {} is not covered by the metadata but is advertised by {:?}/{:?}",
                who,
                s,
                t.nodes[s],
                t.slots[s]
            );
            continue;
        }
        ensure!(
            t.nodes[s].len() == 1,
            "C14:slot-not-once-in-nodes",
            "{}: slot {} is listed {} times in CLUSTER NODES ({:?}); admissible: {:?}",
            who,
            s,
            t.nodes[s].len(),
            t.nodes[s],
            want
        );
        ensure!(
            t.slots[s].len() == 1,
            "C14:slot-not-once-in-slots",
            "{}: slot {} is listed {} times in CLUSTER SLOTS ({:?}); admissible: {:?}",
            who,
            s,
            t.slots[s].len(),
            t.slots[s],
            want
        );
        ensure!(
            t.nodes[s][0] == t.slots[s][0],
            "C14:nodes-slots-disagree",
            "{}: slot {} is at {} in CLUSTER NODES and at {} in CLUSTER SLOTS",
            who,
            s,
            t.nodes[s][0],
            t.slots[s][0]
        );
        ensure!(
            want.contains(&t.nodes[s][0]),
            "C14:advertised-at-wrong-node",
            "{}: slot {} is advertised at {}, admissible: {:?}",
            who,
            s,
            t.nodes[s][0],
            want
        );
    }
    Ok(())
}

// --- (a) hand-built maps with arbitrary migration states -----------------------

#[derive(Debug, Clone, Serialize, Deserialize)]
pub struct Seg {
    pub len: u16,
    /// 0 = stable on me, 1 = stable on peer (peer index), 2 = I migrate it out to a peer,
    /// 3 = I import it from a peer, 4 = third-party migration between two peers, 5 = not covered
    pub kind: u8,
    pub peer: u8,
    pub peer2: u8,
    /// migration state held by this proxy for the range (0..6), 6 = none held
    pub state: u8,
    pub local_node: u8,
}

#[derive(Debug, Clone, Serialize, Deserialize)]
pub struct MapCase {
    pub segs: Vec<Seg>,
    pub v2: bool,
}

pub fn map_strategy() -> impl Strategy<Value = MapCase> {
    let seg = (1u16..6000, prop_oneof![3 => Just(0u8), 3 => Just(1u8), 2 => Just(2u8), 2 => Just(3u8), 2 => Just(4u8), 1 => Just(5u8)], 0u8..3, 0u8..3, 0u8..7, 0u8..2)
        .prop_map(|(len, kind, peer, peer2, state, local_node)| Seg { len, kind, peer, peer2, state, local_node });
    (prop::collection::vec(seg, 1..10), any::<bool>()).prop_map(|(segs, v2)| MapCase { segs, v2 })
}

const ME: &str = "127.0.0.1:6000";
fn local_node(i: u8) -> String {
    format!("127.0.0.1:{}", 7001 + i as usize)
}
fn peer(i: u8) -> String {
    format!("127.0.0.{}:6000", 2 + i)
}
fn peer_node(i: u8) -> String {
    format!("127.0.0.{}:7001", 2 + i)
}

#[derive(Clone, Default)]
struct Recorder(Arc<Mutex<Vec<String>>>);

struct RecSender {
    addr: String,
    rec: Recorder,
}

impl CmdTaskSender for RecSender {
    type Task = CmdCtx;
    fn send(&self, cmd_task: Self::Task) -> Result<(), SenderBackendError<Self::Task>> {
        self.rec.0.lock().unwrap().push(self.addr.clone());
        cmd_task.set_resp_result(Ok(Resp::Simple(b"EXECUTED".to_vec())));
        Ok(())
    }
}

struct RecFactory(Recorder);

impl CmdTaskSenderFactory for RecFactory {
    type Sender = RecSender;
    fn create(&self, address: String) -> Self::Sender {
        RecSender { addr: address, rec: self.0.clone() }
    }
}

fn state_of(i: u8) -> Option<MigrationState> {
    match i {
        0 => Some(MigrationState::PreCheck),
        1 => Some(MigrationState::PreBlocking),
        2 => Some(MigrationState::PreSwitch),
        3 => Some(MigrationState::Scanning),
        4 => Some(MigrationState::FinalSwitch),
        5 => Some(MigrationState::SwitchCommitted),
        _ => None,
    }
}

pub fn check_map(case: &MapCase, obs: &mut Obs) -> Result<(), Fail> {
    // lay the segments out over 0..16383 (the last one absorbs the rest)
    let mut local: HashMap<String, Vec<SlotRange>> = HashMap::new();
    let mut peers: HashMap<String, Vec<SlotRange>> = HashMap::new();
    let mut states: HashMap<RangeList, MigrationState> = HashMap::new();
    let mut expected: Vec<Vec<String>> = vec![vec![]; 16384];
    let mut local_exec: Vec<Option<String>> = vec![None; 16384]; // stable local slots: node that must execute
    let mut moved_to: Vec<Option<String>> = vec![None; 16384]; // stable peer slots
    let mut start = 0usize;
    let n = case.segs.len();
    let mut epoch = 10;
    for (i, seg) in case.segs.iter().enumerate() {
        if start >= 16384 {
            break;
        }
        let end = if i + 1 == n { 16383 } else { (start + seg.len as usize - 1).min(16383) };
        let rl = RangeList::new(vec![Range(start, end)]);
        let p1 = seg.peer % 3;
        let mut p2 = seg.peer2 % 3;
        if p2 == p1 {
            p2 = (p1 + 1) % 3;
        }
        epoch += 1;
        let mut set = |v: Vec<String>| {
            for s in start..=end {
                expected[s] = v.clone();
            }
        };
        match seg.kind {
            0 => {
                local.entry(local_node(seg.local_node)).or_default().push(SlotRange { range_list: rl, tag: SlotRangeTag::None });
                set(vec![ME.to_string()]);
                for s in start..=end {
                    local_exec[s] = Some(local_node(seg.local_node));
                }
            }
            1 => {
                peers.entry(peer(p1)).or_default().push(SlotRange { range_list: rl, tag: SlotRangeTag::None });
                set(vec![peer(p1)]);
                for s in start..=end {
                    moved_to[s] = Some(peer(p1));
                }
            }
            2 | 3 => {
                let out = seg.kind == 2;
                let meta = if out {
                    MigrationMeta { epoch, src_proxy_address: ME.into(), src_node_address: local_node(seg.local_node), dst_proxy_address: peer(p1), dst_node_address: peer_node(p1) }
                } else {
                    MigrationMeta { epoch, src_proxy_address: peer(p1), src_node_address: peer_node(p1), dst_proxy_address: ME.into(), dst_node_address: local_node(seg.local_node) }
                };
                let (mine, theirs) = if out {
                    (SlotRangeTag::Migrating(meta.clone()), SlotRangeTag::Importing(meta.clone()))
                } else {
                    (SlotRangeTag::Importing(meta.clone()), SlotRangeTag::Migrating(meta.clone()))
                };
                local.entry(local_node(seg.local_node)).or_default().push(SlotRange { range_list: rl.clone(), tag: mine });
                peers.entry(peer(p1)).or_default().push(SlotRange { range_list: rl.clone(), tag: theirs });
                // a proxy that runs the migration always holds a state for it; "none held" is
                // generated too (metadata installed, task not yet visible) - then either side is admissible
                match state_of(seg.state) {
                    Some(st) => {
                        states.insert(rl, st);
                        let at_source = st == MigrationState::PreCheck;
                        let src = if out { ME.to_string() } else { peer(p1) };
                        let dst = if out { peer(p1) } else { ME.to_string() };
                        set(vec![if at_source { src } else { dst }]);
                        obs.class(format!("local-migration:{}:{}", if out { "src" } else { "dst" }, if at_source { "pre-check" } else { "after-handshake" }));
                    }
                    None => {
                        set(vec![ME.to_string(), peer(p1)]);
                        obs.class("local-migration:no-state-held");
                    }
                }
                obs.nontrivial = true;
            }
            4 => {
                let meta = MigrationMeta { epoch, src_proxy_address: peer(p1), src_node_address: peer_node(p1), dst_proxy_address: peer(p2), dst_node_address: peer_node(p2) };
                peers.entry(peer(p1)).or_default().push(SlotRange { range_list: rl.clone(), tag: SlotRangeTag::Migrating(meta.clone()) });
                peers.entry(peer(p2)).or_default().push(SlotRange { range_list: rl, tag: SlotRangeTag::Importing(meta) });
                set(vec![peer(p1), peer(p2)]);
                obs.class("bystander-migration");
                obs.nontrivial = true;
            }
            _ => {
                obs.class("gap");
            }
        }
        start = end + 1;
    }
    if local.values().chain(peers.values()).any(|v| v.len() >= 2) {
        obs.nontrivial = true;
        obs.class("several-ranges-on-a-node");
    }
    let meta = ProxyClusterMeta::new(
        7,
        ClusterMapFlags { force: false, compress: false },
        ClusterName::try_from("mycluster").expect("n"),
        local,
        peers,
        ClusterConfig::default(),
    );
    let rec = Recorder::default();
    let map: ClusterBackendMap<RecSender, RecSender> = ClusterBackendMap::from_cluster_map(&meta, &RecFactory(rec.clone()), &RecFactory(Recorder::default()), false);
    let version = if case.v2 { ClusterNodesVersion::V2 } else { ClusterNodesVersion::V1 };
    let nodes = map.gen_cluster_nodes(ME.to_string(), &states, version);
    let slots = map.gen_cluster_slots(ME.to_string(), &states).map_err(|e| Fail::new("C14:slots-error", e))?;
    let t = parse_topology(&nodes, &slots, case.v2)?;
    check_topology(&t, ME, &|s| expected[s].clone(), "hand-built map")?;
    // routing agreement for slots not under migration: a probe per segment boundary
    let mut probes: Vec<usize> = vec![0, 16383];
    let mut acc = 0usize;
    for seg in &case.segs {
        acc += seg.len as usize;
        for d in [-1i64, 0] {
            let s = acc as i64 + d;
            if (0..16384).contains(&s) {
                probes.push(s as usize);
            }
        }
    }
    for s in probes {
        if local_exec[s].is_none() && moved_to[s].is_none() {
            continue;
        }
        let key = &slot_keys()[s];
        let packet = Box::new(RespPacket::from_resp_vec(Resp::Arr(Array::Arr(vec![
            Resp::Bulk(BulkStr::Str(b"GET".to_vec())),
            Resp::Bulk(BulkStr::Str(key.clone())),
        ]))));
        let cmd = Command::new(packet);
        let (sender, receiver) = new_command_pair(&cmd);
        let ctx = CmdCtx::new(cmd, sender, 1, false);
        rec.0.lock().unwrap().clear();
        let _ = map.send(ctx);
        let reply = futures::executor::block_on(receiver).map(|r| r.into_resp_vec());
        let executed = rec.0.lock().unwrap().clone();
        match (&local_exec[s], &moved_to[s]) {
            (Some(node), _) => {
                ensure!(
                    executed == vec![node.clone()] && t.nodes[s] == vec![ME.to_string()],
                    "C14:advertised-vs-routing",
                    "slot {} is advertised at {:?}; a command for it is executed on {:?} (expected local node {})",
                    s,
                    t.nodes[s],
                    executed,
                    node
                );
            }
            (None, Some(p)) => {
                let moved = match &reply {
                    Ok(Resp::Error(e)) => String::from_utf8_lossy(e).to_string(),
                    other => format!("{:?}", other.as_ref().map(|_| "non-error")),
                };
                ensure!(
                    executed.is_empty() && moved == format!("MOVED {} {}", s, p) && t.nodes[s] == vec![p.clone()],
                    "C14:advertised-vs-routing",
                    "slot {} is advertised at {:?}; a command for it gives '{}' (expected MOVED to {})",
                    s,
                    t.nodes[s],
                    moved,
                    p
                );
            }
            _ => {}
        }
    }
    Ok(())
}

pub const RULE: &str = "[maps] ClusterBackendMap::from_cluster_map over recording sender factories with generated layouts: 1..9 segments over 0..16383, each stable-local / stable-on-peer / migrating out / importing / third-party migration between two peers / uncovered, several ranges per node, an ARBITRARY migration-state map (all six states or none held) and both NODES format versions; CLUSTER NODES and CLUSTER SLOTS parsed by an independent parser: every covered slot exactly once in each, same address in both, one 'myself' line with the announce address, non-migrating slots advertised where a probe command is executed / MOVED to, migrating slots at the source iff the held state is PreCheck else at the destination, bystander migrations once at either side; non-trivial = a migration tag or >=2 ranges on a node; distinct = hash of the case";

pub fn run(ctx: &Ctx, findings: &Findings) -> PropReport {
    let mut subs = vec![];
    if let Some(path) = &ctx.replay {
        let v: serde_json::Value = serde_json::from_str(&std::fs::read_to_string(path).expect("replay file")).expect("json");
        if let Some(r) = replay_case::<MapCase>(ctx, findings, "maps", &v, &check_map) {
            subs.push(r);
        }
        if let Some(r) = crate::props::c02::replay_phases(ctx, findings, &v) {
            subs.push(r);
        }
    } else {
        let _ = slot_keys();
        CASE_THREADS.store(false, std::sync::atomic::Ordering::Relaxed);
        subs.push(drive(ctx, findings, "maps", RULE, ctx.cases(8000, 160000), map_strategy, &check_map));
        CASE_THREADS.store(true, std::sync::atomic::Ordering::Relaxed);
        subs.push(crate::props::c02::run_phases_for_c14(ctx, findings));
    }
    PropReport {
        level: "exploration",
        subs,
        assumptions: vec![
            "a bystander proxy (no state for the range) may advertise a migrating slot at its source or its destination; exactly once is demanded".into(),
            "when a proxy holds no state for its own migration (metadata installed, task not yet started) either side is admissible".into(),
        ],
        extra: Default::default(),
    }
}
