//! C16 - no client input can crash, abort or wedge a proxy.
//!
//! Inputs are executed in CHILD worker processes of this binary (`umverif C16-WORKER`): an
//! abort, a stack overflow or a refused giant allocation kills the child, which the parent
//! observes and attributes to the input it had just sent.
use crate::engines::world::*;
use crate::fw::*;
use proptest::prelude::*;
use serde::{Deserialize, Serialize};
use std::cell::RefCell;
use std::io::{BufRead, BufReader, Write};
use std::process::{Child, ChildStdin, Command, Stdio};
use std::sync::mpsc;
use std::time::Duration;

#[derive(Debug, Clone, Serialize, Deserialize)]
pub enum Arg {
    Missing,
    Empty,
    NonUtf8,
    Zero,
    MinusOne,
    I64Max,
    U64Max,
    TwoPow64,
    TwoPow62,
    Small(u8),
    Digits(u8),
    Word(String),
    Key(u8),
    Long(u16),
    /// valid UTF-8: `pad` ASCII bytes followed by `n` two-byte characters (a multi-byte character can
    /// straddle any byte offset a truncation picks)
    Utf8 { pad: u8, n: u8 },
}

impl Arg {
    fn bytes(&self) -> Option<Vec<u8>> {
        Some(match self {
            Arg::Missing => return None,
            Arg::Empty => vec![],
            Arg::NonUtf8 => vec![0xff, 0xfe, 0x00, 0x80],
            Arg::Zero => b"0".to_vec(),
            Arg::MinusOne => b"-1".to_vec(),
            Arg::I64Max => b"9223372036854775807".to_vec(),
            Arg::U64Max => b"18446744073709551615".to_vec(),
            Arg::TwoPow64 => b"18446744073709551616".to_vec(),
            Arg::TwoPow62 => b"4611686018427387904".to_vec(),
            Arg::Small(n) => n.to_string().into_bytes(),
            Arg::Digits(n) => vec![b'9'; *n as usize + 1],
            Arg::Word(w) => w.as_bytes().to_vec(),
            Arg::Key(k) => format!("key{}", k).into_bytes(),
            Arg::Long(n) => vec![b'x'; *n as usize],
            Arg::Utf8 { pad, n } => {
                let mut v = vec![b'a'; *pad as usize];
                v.extend("\u{e9}".repeat(*n as usize + 1).into_bytes());
                v
            }
        })
    }
}

fn arg() -> impl Strategy<Value = Arg> {
    prop_oneof![
        2 => Just(Arg::Missing),
        2 => Just(Arg::Empty),
        2 => Just(Arg::NonUtf8),
        3 => Just(Arg::Zero),
        2 => Just(Arg::MinusOne),
        2 => Just(Arg::I64Max),
        2 => Just(Arg::U64Max),
        2 => Just(Arg::TwoPow64),
        2 => Just(Arg::TwoPow62),
        4 => (0u8..20).prop_map(Arg::Small),
        1 => (0u8..60).prop_map(Arg::Digits),
        4 => prop_oneof![
            Just("NOFLAG"), Just("FORCE"), Just("COMPRESS"), Just("v2"), Just("mycluster"), Just("PEER"), Just("CONFIG"),
            Just("migrating"), Just("importing"), Just("master"), Just("replica"), Just("127.0.0.1:7001"), Just("127.0.0.2:6000"),
            Just("GET"), Just("SET"), Just("nodes"), Just("slots"), Just("keyslot"), Just("0-16383"), Just("1"), Just("mgr_v2"),
            Just("0-4294967295"), Just("0-18446744073709551615"), Just("16383-16384"), Just("9-1"), Just("16384-16390"), Just("slowlog_sample_rate"),
            Just("return 1"), Just("compression_strategy"), Just("allow_all"), Just("slowlog_log_slower_than"), Just("RESET"), Just("FUTURE"),
        ].prop_map(|s| Arg::Word(s.to_string())),
        4 => (0u8..6).prop_map(Arg::Key),
        1 => (1u16..5000).prop_map(Arg::Long),
        2 => (0u8..130, 0u8..200).prop_map(|(pad, n)| Arg::Utf8 { pad, n }),
    ]
}

const NAMES: &[&[&str]] = &[
    &["UMCTL", "SETCLUSTER"], &["UMCTL", "SETREPL"], &["UMCTL", "PRECHECK"], &["UMCTL", "PRESWITCH"], &["UMCTL", "FINALSWITCH"],
    &["UMCTL", "INFO"], &["UMCTL", "INFOREPL"], &["UMCTL", "INFOMGR"], &["UMCTL", "GETEPOCH"], &["UMCTL", "READY"], &["UMCTL", "LISTCLUSTER"],
    &["UMCTL", "SLOWLOG", "GET"], &["UMCTL", "SLOWLOG"], &["UMCTL", "DEBUG"], &["UMCTL", "STATS"], &["UMCTL"],
    &["UMFORWARD"], &["UMSYNC"], &["CLUSTER"], &["CLUSTER", "NODES"], &["CLUSTER", "SLOTS"], &["CLUSTER", "KEYSLOT"],
    &["CONFIG", "GET"], &["CONFIG", "SET"], &["CONFIG"], &["AUTH"], &["EVAL", "return 1"], &["EVALSHA", "abc"], &["EVAL"],
    &["MGET"], &["MSET"], &["MSETNX"], &["DEL"], &["EXISTS"], &["BLPOP"], &["BRPOP"], &["BRPOPLPUSH"], &["BZPOPMIN"], &["BZPOPMAX"],
    &["GET"], &["SET"], &["SETEX"], &["PSETEX"], &["GETSET"], &["APPEND"], &["INCR"], &["LPUSH"], &["LPOP"], &["EXPIRE"],
    &["PING"], &["ECHO"], &["SELECT"], &["INFO"], &["HELLO"], &["COMMAND"], &["ASKING"], &["QUIT"], &[""],
    // template (expanded by `template_cmd`): a well-formed SETCLUSTER whose local node carries a migration tag
    // with a hostile slot range
    &["UMCTL-SETCLUSTER-MIG"],
];

const HOSTILE_RANGES: &[&str] = &[
    "0-18446744073709551615", "0-4294967295", "16383-16384", "16384-16390", "9-1", "0-16383", "100-200", "18446744073709551615-18446744073709551615", "0-9223372036854775807", "16000-70000",
];

/// `UMCTL SETCLUSTER v2 <epoch> NOFLAG mycluster <node> migrating|importing 1 <range> <epoch> <4 addresses> [PEER ...]`
/// with the choices derived from the generated arguments
fn template_cmd(args: &[Arg]) -> Cmd {
    let h = args.iter().filter_map(|a| a.bytes()).flatten().fold(args.len(), |a, b| a.wrapping_mul(31).wrapping_add(b as usize));
    let range = HOSTILE_RANGES[h % HOSTILE_RANGES.len()];
    let importing = (h / 16) % 2 == 1;
    let (src_p, src_n, dst_p, dst_n) = if importing { ("127.0.0.2:6000", "127.0.0.2:7001", PROXY, NODE) } else { (PROXY, NODE, "127.0.0.2:6000", "127.0.0.2:7001") };
    let mut c = cmd(&["UMCTL", "SETCLUSTER", "v2", "7", "NOFLAG", "mycluster", NODE, if importing { "importing" } else { "migrating" }, "1", range, "7", src_p, src_n, dst_p, dst_n]);
    if (h / 32) % 2 == 1 {
        c.extend(cmd(&["PEER", "127.0.0.2:6000", "1", HOSTILE_RANGES[(h / 64) % HOSTILE_RANGES.len()]]));
    }
    c
}

#[derive(Debug, Clone, Serialize, Deserialize)]
pub enum Input {
    /// well-formed commands with generated arguments
    Commands {
        with_meta: bool,
        compression: u8,
        cmds: Vec<(u16, Vec<Arg>)>,
        /// the connection first switches the slow log to "record every request" (CONFIG SET
        /// slowlog_sample_rate 1, slowlog_log_slower_than -1) and reads it back at the end (UMCTL SLOWLOG GET)
        #[serde(default)]
        slowlog_all: bool,
    },
    /// raw bytes on the connection
    Bytes { with_meta: bool, pieces: Vec<Piece> },
    /// the same kinds of input written in fragments on a real loopback TCP connection served by
    /// the real `handle_session` behind an accept loop (no blocking commands)
    Tcp {
        inner: Box<Input>,
        frags: Vec<u16>,
        /// 0 = the client reads the replies, then disconnects; 1 = it disconnects right after writing,
        /// without reading; 2 = it shuts down its sending direction after writing and keeps reading
        #[serde(default)]
        close_mode: u8,
    },
}

#[derive(Debug, Clone, Serialize, Deserialize)]
pub enum Piece {
    Raw(Vec<u8>),
    /// "*<n>\r\n" repeated: nesting
    Nest { count: String, depth: u32 },
    /// a length prefix of the given type byte
    Prefix { ty: u8, len: String },
    Valid(u8),
    /// one valid command repeated: a deep pipeline arriving in one piece
    Pipeline { kind: u8, count: u16 },
}

impl Piece {
    fn bytes(&self) -> Vec<u8> {
        match self {
            Piece::Raw(b) => b.clone(),
            Piece::Nest { count, depth } => format!("*{}\r\n", count).repeat(*depth as usize).into_bytes(),
            Piece::Prefix { ty, len } => format!("{}{}\r\n", *ty as char, len).into_bytes(),
            Piece::Pipeline { kind, count } => Piece::Valid(*kind).bytes().repeat(*count as usize),
            Piece::Valid(k) => match k % 4 {
                0 => b"*1\r\n$4\r\nPING\r\n".to_vec(),
                1 => b"*2\r\n$3\r\nGET\r\n$4\r\nkey1\r\n".to_vec(),
                2 => b"*3\r\n$3\r\nSET\r\n$4\r\nkey1\r\n$1\r\nv\r\n".to_vec(),
                _ => b"*2\r\n$5\r\nUMCTL\r\n$8\r\nGETEPOCH\r\n".to_vec(),
            },
        }
    }
}

fn piece() -> impl Strategy<Value = Piece> {
    let lens = prop_oneof![
        Just("2147483648".to_string()), Just("4611686018427387904".to_string()), Just("9223372036854775807".to_string()), Just("-2".to_string()),
        Just("1000000000".to_string()), Just("100000".to_string()), Just("18446744073709551616".to_string()), Just("0".to_string()), Just("3".to_string()),
    ];
    prop_oneof![
        3 => prop::collection::vec(prop_oneof![4 => any::<u8>(), 1 => Just(b'\r'), 1 => Just(b'\n'), 1 => Just(b'*'), 1 => Just(b'$')], 0..40).prop_map(Piece::Raw),
        2 => (prop_oneof![Just("1".to_string()), Just("2".to_string()), Just("1000".to_string())], prop_oneof![3 => 1u32..200, 1 => 200u32..10000, 1 => 10000u32..200000]).prop_map(|(count, depth)| Piece::Nest { count, depth }),
        3 => (prop_oneof![Just(b'*'), Just(b'$')], lens).prop_map(|(ty, len)| Piece::Prefix { ty, len }),
        3 => (0u8..4).prop_map(Piece::Valid),
        1 => (0u8..4, prop_oneof![2 => 2u16..64, 3 => 64u16..70, 2 => 70u16..600]).prop_map(|(kind, count)| Piece::Pipeline { kind, count }),
    ]
}

fn is_blocking_name(n: u16) -> bool {
    matches!(NAMES[n as usize % NAMES.len()][0], "BLPOP" | "BRPOP" | "BRPOPLPUSH" | "BZPOPMIN" | "BZPOPMAX")
}

pub fn tcp_strategy() -> impl Strategy<Value = Input> {
    (strategy(), prop::collection::vec(prop_oneof![2 => 1u16..8, 2 => 1u16..64, 1 => 64u16..4096], 0..6), prop_oneof![5 => Just(0u8), 3 => Just(1u8), 2 => Just(2u8)]).prop_map(|(inner, frags, close_mode)| {
        let inner = match inner {
            Input::Commands { with_meta, compression, cmds, slowlog_all } => {
                // a blocking command waits legitimately for as long as the client asked: not a wedge
                let cmds: Vec<_> = cmds.into_iter().map(|(n, a)| if is_blocking_name(n) { (39u16, a) } else { (n, a) }).collect();
                Input::Commands { with_meta, compression, cmds, slowlog_all }
            }
            other => other,
        };
        Input::Tcp { inner: Box::new(inner), frags, close_mode }
    })
}

pub fn strategy() -> impl Strategy<Value = Input> {
    prop_oneof![
        3 => (any::<bool>(), 0u8..3, prop::collection::vec((prop_oneof![12 => 0u16..NAMES.len() as u16, 1 => Just(NAMES.len() as u16 - 1)], prop::collection::vec(arg(), 0..8)), 1..6), prop::bool::weighted(0.3))
            .prop_map(|(with_meta, compression, cmds, slowlog_all)| Input::Commands { with_meta, compression, cmds, slowlog_all }),
        2 => (any::<bool>(), prop::collection::vec(piece(), 1..6)).prop_map(|(with_meta, pieces)| Input::Bytes { with_meta, pieces }),
    ]
}

// ---------------------------------------------------------------------------
// worker side
// ---------------------------------------------------------------------------

const PROXY: &str = "127.0.0.1:6000";
const NODE: &str = "127.0.0.1:7001";
/// the bound of the property: a constant plus a constant multiple of the bytes received
const MEM_CONST: usize = 16 << 20;
const MEM_FACTOR: usize = 4096;

#[derive(Debug, Serialize, Deserialize)]
pub struct WorkerResult {
    pub ok: bool,
    pub signature: String,
    pub message: String,
    pub peak: usize,
    pub requests: usize,
    pub reached_executor: bool,
}

async fn setup(with_meta: bool, compression: u8) -> World {
    let world = World::new();
    world.net.add_proxy(PROXY, &ProxyOpts::default());
    let r = world.net.add_redis(NODE, 0);
    // data for the blocking commands so that their waiting is legitimate and finite
    for k in 0..6 {
        r.exec(0, &cmdb(&[b"RPUSH", format!("key{}", k).as_bytes(), b"a", b"b", b"c", b"d", b"e", b"f", b"g", b"h"]));
    }
    if with_meta {
        let strat = ["disabled", "set_get_only", "allow_all"][compression as usize % 3];
        let c = cmd(&["UMCTL", "SETCLUSTER", "v2", "1", "NOFLAG", "mycluster", NODE, "1", "0-8000", "PEER", "127.0.0.2:6000", "1", "8001-16383", "CONFIG", "compression_strategy", strat]);
        let _ = world.once(PROXY, &c).await;
    }
    world
}

fn stream_of(input: &Input) -> Vec<u8> {
    match input {
        Input::Bytes { pieces, .. } => pieces.iter().flat_map(|p| p.bytes()).collect(),
        Input::Commands { cmds, slowlog_all, .. } => {
            let mut out = vec![];
            if *slowlog_all {
                for c in [cmd(&["CONFIG", "SET", "slowlog_sample_rate", "1"]), cmd(&["CONFIG", "SET", "slowlog_log_slower_than", "-1"])] {
                    undermoon::protocol::resp_to_buf(&mut out, &cmd_to_resp(&c)).expect("encode");
                }
            }
            for (n, args) in cmds {
                let name = NAMES[*n as usize % NAMES.len()];
                let mut c: Cmd = name.iter().map(|s| s.as_bytes().to_vec()).collect();
                if name[0] == "UMCTL-SETCLUSTER-MIG" {
                    c = template_cmd(args);
                } else {
                    for a in args {
                        match a.bytes() {
                            Some(b) => c.push(b),
                            None => break,
                        }
                    }
                }
                undermoon::protocol::resp_to_buf(&mut out, &cmd_to_resp(&c)).expect("encode");
            }
            if *slowlog_all {
                undermoon::protocol::resp_to_buf(&mut out, &cmd_to_resp(&cmd(&["UMCTL", "SLOWLOG", "GET"]))).expect("encode");
            }
            out
        }
        Input::Tcp { inner, .. } => stream_of(inner),
    }
}

const TCP_WALL: Duration = Duration::from_secs(6);
/// how often a missed wall-clock expectation is re-tried in a fresh world before it counts (1 while shrinking)
static TCP_ATTEMPTS: std::sync::atomic::AtomicUsize = std::sync::atomic::AtomicUsize::new(3);

/// one attempt of a TCP case; Err(..) = a bounded-time expectation was missed (re-tried by the caller)
async fn tcp_attempt(inner: &Input, frags: &[u16], close_mode: u8, stream: &[u8]) -> Result<(usize, bool), (String, String)> {
    use crate::engines::codec::{ref_parse, Verdict};
    use std::sync::atomic::{AtomicUsize, Ordering};
    use std::sync::Arc;
    use tokio::io::{AsyncReadExt, AsyncWriteExt};
    use undermoon::proxy::session::handle_session;
    let (with_meta, compression) = match inner {
        Input::Commands { with_meta, compression, .. } => (*with_meta, *compression),
        Input::Bytes { with_meta, .. } => (*with_meta, 0),
        Input::Tcp { .. } => (false, 0),
    };
    let world = setup(with_meta, compression).await;
    let proxy = world.net.proxy(PROXY).expect("proxy");
    let listener = tokio::net::TcpListener::bind("127.0.0.1:0").await.map_err(|e| ("harness:bind".to_string(), e.to_string()))?;
    let addr = listener.local_addr().map_err(|e| ("harness:bind".to_string(), e.to_string()))?;
    let ended = Arc::new(AtomicUsize::new(0));
    let ended2 = ended.clone();
    let proxy2 = proxy.clone();
    // what the server's accept loop does: one task per accepted connection
    let acceptor = tokio::spawn(async move {
        loop {
            let Ok((sock, _)) = listener.accept().await else { break };
            let _ = sock.set_nodelay(true);
            let session = Arc::new(proxy2.new_session());
            let ended = ended2.clone();
            tokio::spawn(async move {
                let _ = handle_session(session, sock, None).await;
                ended.fetch_add(1, Ordering::SeqCst);
            });
        }
    });
    // what a strict RESP reader expects on this stream
    let mut expected = 0usize;
    let mut pos = 0usize;
    let mut fully_valid = true;
    // the reference recognizer recurses per nesting level: deeply nested input (which the proxy must
    // refuse or wait on - it is never a run of complete commands) is not handed to it
    let deep = {
        let mut run = 0usize;
        let mut max = 0usize;
        let mut i = 0;
        while i < stream.len() {
            if stream[i] == b'*' {
                let mut j = i + 1;
                while j < stream.len() && stream[j].is_ascii_digit() {
                    j += 1;
                }
                if j + 1 < stream.len() && stream[j] == b'\r' && stream[j + 1] == b'\n' && j > i + 1 {
                    run += 1;
                    max = max.max(run);
                    i = j + 2;
                    continue;
                }
            }
            run = 0;
            i += 1;
        }
        max > 64
    };
    if deep {
        fully_valid = false;
    }
    while !deep && pos < stream.len() {
        match ref_parse(&stream[pos..]) {
            Verdict::Complete(_, used) => {
                expected += 1;
                pos += used;
            }
            _ => {
                fully_valid = false;
                break;
            }
        }
    }
    let early_close = close_mode == 1;
    let res: Result<(usize, bool), (String, String)> = async {
        let mut sock = tokio::net::TcpStream::connect(addr).await.map_err(|e| ("harness:connect".to_string(), e.to_string()))?;
        let _ = sock.set_nodelay(true);
        let mut other = tokio::net::TcpStream::connect(addr).await.map_err(|e| ("harness:connect".to_string(), e.to_string()))?;
        let (mut rd, mut wr) = sock.split();
        let deadline = tokio::time::Instant::now() + TCP_WALL;
        let mut closed = false;
        let mut replies = 0usize;
        let writer = async {
            let mut pos = 0;
            let mut fi = 0;
            while pos < stream.len() {
                let n = if frags.is_empty() { stream.len() - pos } else { (frags[fi % frags.len()].max(1) as usize).min(stream.len() - pos) };
                fi += 1;
                if wr.write_all(&stream[pos..pos + n]).await.is_err() {
                    break; // the proxy closed the connection: legitimate after a protocol error
                }
                pos += n;
                tokio::task::yield_now().await;
            }
            let _ = wr.flush().await;
            if close_mode == 2 {
                let _ = wr.shutdown().await;
            }
        };
        let reader = async {
            let mut buf: Vec<u8> = vec![];
            loop {
                // nothing more is owed once every complete request of the valid prefix was answered
                if replies >= expected || early_close {
                    break;
                }
                let mut chunk = [0u8; 16384];
                match tokio::time::timeout_at(deadline, rd.read(&mut chunk)).await {
                    Ok(Ok(0)) | Ok(Err(_)) => {
                        closed = true;
                        break;
                    }
                    Ok(Ok(n)) => buf.extend_from_slice(&chunk[..n]),
                    Err(_) => break,
                }
                while let Verdict::Complete(_, used) = ref_parse(&buf) {
                    buf.drain(..used);
                    replies += 1;
                }
            }
        };
        let _ = tokio::time::timeout_at(deadline + Duration::from_millis(200), futures::future::join(writer, reader)).await;
        let _ = fully_valid;
        if replies < expected && !closed && !early_close {
            return Err(("C16:tcp-request-neither-answered-nor-closed".to_string(), format!("{} complete requests were written (before any malformed or incomplete data), {} replies arrived within {} s and the connection was not closed", expected, replies, TCP_WALL.as_secs())));
        }
        // other connections keep being served - also while the first one is still open
        let ping = async {
            other.write_all(b"*1\r\n$4\r\nPING\r\n").await.ok()?;
            let mut b = [0u8; 64];
            let n = other.read(&mut b).await.ok()?;
            Some(b[..n].to_vec())
        };
        match tokio::time::timeout(TCP_WALL, ping).await {
            Ok(Some(b)) if b.starts_with(b"+") => {}
            other => return Err(("C16:other-connection-not-served".to_string(), format!("PING on a second TCP connection was not answered within {} s: {:?}", TCP_WALL.as_secs(), other.map(|o| o.map(|b| String::from_utf8_lossy(&b).to_string()))))),
        }
        drop(other);
        drop(sock);
        // both sessions must end once their clients are gone
        let t0 = tokio::time::Instant::now();
        while ended.load(Ordering::SeqCst) < 2 {
            if t0.elapsed() > TCP_WALL {
                return Err(("C16:tcp-session-never-ends".to_string(), format!("{} s after both clients closed their connections only {} of 2 session tasks had ended", TCP_WALL.as_secs(), ended.load(Ordering::SeqCst))));
            }
            tokio::time::sleep(Duration::from_millis(2)).await;
        }
        Ok((replies, closed))
    }
    .await;
    acceptor.abort();
    drop(world);
    res
}

async fn run_tcp(inner: &Input, frags: &[u16], close_mode: u8) -> WorkerResult {
    let stream = stream_of(inner);
    let received = stream.len();
    let bound = MEM_CONST + MEM_FACTOR * received;
    crate::alloc::SINGLE_LIMIT.store(bound, std::sync::atomic::Ordering::Relaxed);
    let base = crate::alloc::mark();
    let _ = drain_panic_log();
    let mut fail: Option<(String, String)> = None;
    let mut requests = 0;
    // a missed wall-clock expectation is only believed after three attempts in fresh worlds
    let attempts = TCP_ATTEMPTS.load(std::sync::atomic::Ordering::Relaxed);
    for attempt in 0..attempts {
        match tcp_attempt(inner, frags, close_mode, &stream).await {
            Ok((replies, _closed)) => {
                requests = replies;
                fail = None;
                break;
            }
            Err((sig, msg)) if sig.starts_with("harness:") => {
                return WorkerResult { ok: true, signature: sig, message: msg, peak: 0, requests: 0, reached_executor: false };
            }
            Err(e) => {
                fail = Some(e);
                if attempt + 1 < attempts {
                    tokio::time::sleep(Duration::from_millis(50)).await;
                }
            }
        }
    }
    tokio::time::sleep(Duration::from_millis(20)).await;
    let peak = crate::alloc::peak_since(base);
    crate::alloc::SINGLE_LIMIT.store(usize::MAX, std::sync::atomic::Ordering::Relaxed);
    let panics = drain_panic_log();
    if let Some(p) = panics.first() {
        fail = Some((panic_signature(p).replace("panic@", "C16:panic@"), format!("panic while handling the input: {}", p)));
    }
    if fail.is_none() && peak > bound {
        fail = Some(("C16:memory-amplification".into(), format!("peak live memory attributable to the connection was {} bytes for {} bytes received (bound {} = 16 MiB + 4096 x received)", peak, received, bound)));
    }
    match fail {
        Some((signature, message)) => WorkerResult { ok: false, signature, message, peak, requests, reached_executor: requests > 0 },
        None => WorkerResult { ok: true, signature: String::new(), message: String::new(), peak, requests, reached_executor: requests > 0 },
    }
}

async fn run_input(input: &Input) -> WorkerResult {
    use tokio_util::codec::Decoder;
    use undermoon::protocol::{new_simple_packet_codec, RespCodec, RespPacket};
    use undermoon::proxy::command::Command as UmCommand;
    use undermoon::proxy::session::CmdHandler;
    let (with_meta, compression) = match input {
        Input::Commands { with_meta, compression, .. } => (*with_meta, *compression),
        Input::Bytes { with_meta, .. } => (*with_meta, 0),
        Input::Tcp { inner, frags, close_mode } => return run_tcp(inner, frags, *close_mode).await,
    };
    let world = setup(with_meta, compression).await;
    let proxy = world.net.proxy(PROXY).expect("proxy");
    let session = proxy.new_session();
    // the byte stream of the connection
    let stream: Vec<u8> = stream_of(input);
    let received = stream.len();
    let bound = MEM_CONST + MEM_FACTOR * received;
    crate::alloc::SINGLE_LIMIT.store(bound, std::sync::atomic::Ordering::Relaxed);
    let base = crate::alloc::mark();
    let _ = drain_panic_log();
    let mut requests = 0usize;
    let mut reached = false;
    let (enc, dec) = new_simple_packet_codec::<Box<RespPacket>, Box<RespPacket>>();
    let mut codec = RespCodec::new(enc, dec);
    let mut buf = bytes::BytesMut::from(&stream[..]);
    let mut fail: Option<(String, String)> = None;
    loop {
        match codec.decode(&mut buf) {
            Ok(Some(packet)) => {
                requests += 1;
                reached = true;
                let shown = show_resp(&packet.to_resp_vec());
                let blocking = matches!(packet.get_array_element(0).map(upper).as_deref(), Some("BLPOP") | Some("BRPOP") | Some("BRPOPLPUSH") | Some("BZPOPMIN") | Some("BZPOPMAX"));
                let fut = session.handle_cmd(UmCommand::new(packet));
                // virtual time: nothing may hang. Blocking commands wait legitimately (timeout 0 = forever,
                // or as long as the client asked for): for them only the other oracles apply.
                match tokio::time::timeout(Duration::from_secs(if blocking { 30 } else { 3600 }), fut).await {
                    Ok(Ok(task_reply)) => {
                        // what handle_session does with every completed request
                        let (request, _reply, mut slowlog) = (*task_reply).into_inner();
                        slowlog.log_event(undermoon::proxy::slowlog::TaskEvent::WaitDone);
                        session.handle_slowlog(request, slowlog);
                    }
                    Ok(Err(_)) => {}
                    Err(_) if blocking => break,
                    Err(_) => {
                        fail = Some(("C16:request-never-completes".into(), format!("request {} got neither a reply nor an error within 3600 virtual seconds", shown)));
                        break;
                    }
                }
            }
            Ok(None) => break,  // incomplete: the connection would wait for more data
            Err(_) => break,    // protocol error: the session closes the connection
        }
    }
    // a second connection keeps being served
    if fail.is_none() {
        let other = proxy.new_session();
        let r = tokio::time::timeout(Duration::from_secs(10), session_cmd(&other, &cmd(&["PING"]))).await;
        if !matches!(r, Ok(undermoon::protocol::Resp::Simple(_))) {
            fail = Some(("C16:other-connection-not-served".into(), "PING on a second connection was not answered".into()));
        }
    }
    tokio::time::sleep(Duration::from_millis(50)).await;
    let peak = crate::alloc::peak_since(base);
    crate::alloc::SINGLE_LIMIT.store(usize::MAX, std::sync::atomic::Ordering::Relaxed);
    let panics = drain_panic_log();
    if let Some(p) = panics.first() {
        fail = Some((panic_signature(p).replace("panic@", "C16:panic@"), format!("panic while handling the input: {}", p)));
    }
    if fail.is_none() && peak > bound {
        fail = Some((
            "C16:memory-amplification".into(),
            format!("peak live memory attributable to the connection was {} bytes for {} bytes received (bound {} = 16 MiB + 4096 x received)", peak, received, bound),
        ));
    }
    match fail {
        Some((signature, message)) => WorkerResult { ok: false, signature, message, peak, requests, reached_executor: reached },
        None => WorkerResult { ok: true, signature: String::new(), message: String::new(), peak, requests, reached_executor: reached },
    }
}

/// the oracle without the process boundary (libFuzzer target): the fuzzer process itself is the
/// worker; panics, stack overflow, giant allocations and hangs end it and are re-decided by
/// `check` (child worker) in the parent
pub fn check_in_process(input: &Input, obs: &mut Obs) -> Result<(), Fail> {
    let input2 = input.clone();
    let res = std::thread::Builder::new()
        .stack_size(2 << 20)
        .spawn(move || {
            let rt = world_runtime();
            let r = rt.block_on(run_input(&input2));
            drop(rt);
            r
        })
        .expect("spawn")
        .join();
    match res {
        Ok(r) => {
            if r.reached_executor {
                obs.nontrivial = true;
                obs.class("reached-executor");
            }
            obs.maximum("requests", r.requests as u64);
            if !r.ok {
                return tolerate_known(obs, Fail::new(r.signature, format!("{}: {}", describe(input), r.message)));
            }
            Ok(())
        }
        Err(_) => Err(Fail::new("C16:panic", format!("{}: panic while handling the input", describe(input)))),
    }
}

/// `umverif C16-WORKER`: one JSON case per line on stdin, one JSON result per line on stdout
pub fn worker_main() {
    crate::alloc::ARMED.store(true, std::sync::atomic::Ordering::Relaxed);
    let stdin = std::io::stdin();
    let mut out = std::io::stdout();
    for line in stdin.lock().lines() {
        let Ok(line) = line else { break };
        // a leading '!' = the parent is shrinking: one attempt per wall-clock expectation is enough
        let (line, attempts) = match line.strip_prefix('!') {
            Some(rest) => (rest.to_string(), 1),
            None => (line, 3),
        };
        TCP_ATTEMPTS.store(attempts, std::sync::atomic::Ordering::Relaxed);
        let Ok(input) = serde_json::from_str::<Input>(&line) else {
            let _ = writeln!(out, "{}", serde_json::to_string(&WorkerResult { ok: false, signature: "harness:decode".into(), message: "cannot decode case".into(), peak: 0, requests: 0, reached_executor: false }).unwrap());
            let _ = out.flush();
            continue;
        };
        // a big stack is part of production too (8 MiB main thread / 2 MiB tokio workers); use the
        // tokio worker size so that stack exhaustion by recursion is observable
        let res = std::thread::Builder::new()
            .stack_size(2 << 20)
            .spawn(move || {
                // TCP cases run in real time (real sockets), everything else on the virtual clock
                let rt = if matches!(input, Input::Tcp { .. }) { tokio::runtime::Builder::new_current_thread().enable_all().build().expect("rt") } else { world_runtime() };
                let r = rt.block_on(run_input(&input));
                drop(rt);
                r
            })
            .expect("spawn")
            .join();
        let res = match res {
            Ok(r) => r,
            Err(_) => {
                let p = drain_panic_log();
                WorkerResult { ok: false, signature: p.first().map(|x| panic_signature(x).replace("panic@", "C16:panic@")).unwrap_or("C16:panic".into()), message: format!("panic: {:?}", p), peak: 0, requests: 0, reached_executor: true }
            }
        };
        let _ = writeln!(out, "{}", serde_json::to_string(&res).unwrap());
        let _ = out.flush();
    }
}

// ---------------------------------------------------------------------------
// parent side
// ---------------------------------------------------------------------------

struct WorkerProc {
    child: Child,
    stdin: ChildStdin,
    lines: mpsc::Receiver<String>,
    /// inputs handled so far: a worker is recycled after 1000 (worlds that are never shut down pin
    /// descriptors and memory; the process boundary makes that harmless)
    served: usize,
}

fn spawn_worker() -> WorkerProc {
    let exe = std::env::current_exe().expect("exe");
    let mut child = Command::new(exe).arg("C16-WORKER").stdin(Stdio::piped()).stdout(Stdio::piped()).stderr(Stdio::piped()).spawn().expect("spawn worker");
    let stdin = child.stdin.take().expect("stdin");
    let stdout = child.stdout.take().expect("stdout");
    let (tx, rx) = mpsc::channel();
    std::thread::spawn(move || {
        for l in BufReader::new(stdout).lines() {
            match l {
                Ok(l) => {
                    if tx.send(l).is_err() {
                        break;
                    }
                }
                Err(_) => break,
            }
        }
    });
    WorkerProc { child, stdin, lines: rx, served: 0 }
}

thread_local! {
    static WORKER: RefCell<Option<WorkerProc>> = const { RefCell::new(None) };
}

const WALL_LIMIT: Duration = Duration::from_secs(8);

enum Exec {
    Result(WorkerResult),
    Died(String),
    Hung,
}

fn exec_once(input: &Input) -> Exec {
    WORKER.with(|w| {
        let mut w = w.borrow_mut();
        if matches!(w.as_ref(), Some(p) if p.served >= 1000) {
            if let Some(mut old) = w.take() {
                let _ = old.child.kill();
                let _ = old.child.wait();
            }
        }
        if w.is_none() {
            *w = Some(spawn_worker());
        }
        let proc_ = w.as_mut().expect("worker");
        proc_.served += 1;
        let line = format!("{}{}", if IS_SHRINKING.with(|f| f.get()) { "!" } else { "" }, serde_json::to_string(input).expect("ser"));
        if writeln!(proc_.stdin, "{}", line).is_err() || proc_.stdin.flush().is_err() {
            let _ = proc_.child.kill();
            *w = None;
            return Exec::Died("worker pipe closed before the case was sent".into());
        }
        // TCP cases: up to three attempts with up to three 6 s waits each before the worker answers
        let limit = if matches!(input, Input::Tcp { .. }) { if IS_SHRINKING.with(|f| f.get()) { WALL_LIMIT * 3 } else { WALL_LIMIT * 7 } } else { WALL_LIMIT };
        match proc_.lines.recv_timeout(limit) {
            Ok(l) => match serde_json::from_str::<WorkerResult>(&l) {
                Ok(r) => Exec::Result(r),
                Err(e) => Exec::Died(format!("unreadable worker answer: {}", e)),
            },
            Err(mpsc::RecvTimeoutError::Timeout) => {
                let _ = proc_.child.kill();
                let _ = proc_.child.wait();
                *w = None;
                Exec::Hung
            }
            Err(mpsc::RecvTimeoutError::Disconnected) => {
                let status = proc_.child.wait().ok();
                let mut err = String::new();
                if let Some(mut e) = proc_.child.stderr.take() {
                    use std::io::Read;
                    let _ = e.read_to_string(&mut err);
                }
                *w = None;
                use std::os::unix::process::ExitStatusExt;
                let how = match status {
                    Some(s) if s.code() == Some(77) => format!("refused giant allocation: {}", err.lines().find(|l| l.starts_with("HUGE-ALLOC")).unwrap_or("?")),
                    Some(s) if s.signal().is_some() => format!("killed by signal {} ({})", s.signal().unwrap_or(0), err.lines().last().unwrap_or("").chars().take(160).collect::<String>()),
                    Some(s) => format!("exit status {:?} ({})", s.code(), err.lines().last().unwrap_or("").chars().take(160).collect::<String>()),
                    None => "unknown".into(),
                };
                Exec::Died(how)
            }
        }
    })
}

fn describe(input: &Input) -> String {
    match input {
        Input::Tcp { inner, frags, close_mode } => format!("over loopback TCP in write fragments {:?}{}: {}", frags, ["", ", client disconnects without reading", ", client shuts down its sending direction and keeps reading"][*close_mode as usize % 3], describe(inner)),
        Input::Commands { cmds, with_meta, compression, slowlog_all } => {
            let slow = if *slowlog_all { " [slow log records every request; UMCTL SLOWLOG GET at the end]" } else { "" };
            let v: Vec<String> = cmds
                .iter()
                .map(|(n, args)| {
                    if NAMES[*n as usize % NAMES.len()][0] == "UMCTL-SETCLUSTER-MIG" {
                        return format!("[{}]", show_cmd(&template_cmd(args)));
                    }
                    let mut s: Vec<String> = NAMES[*n as usize % NAMES.len()].iter().map(|x| x.to_string()).collect();
                    for a in args {
                        match a.bytes() {
                            Some(b) => s.push(String::from_utf8_lossy(&b).chars().take(24).collect()),
                            None => break,
                        }
                    }
                    format!("[{}]", s.join(" "))
                })
                .collect();
            format!("commands (metadata set: {}, compression {}){}: {}", with_meta, compression, slow, v.join(" "))
        }
        Input::Bytes { pieces, with_meta } => {
            let total: usize = pieces.iter().map(|p| p.bytes().len()).sum();
            format!("{} raw bytes (metadata set: {}): {:?}", total, with_meta, pieces.iter().map(|p| match p {
                Piece::Nest { count, depth } => format!("'*{}\\r\\n' x {}", count, depth),
                Piece::Prefix { ty, len } => format!("'{}{}\\r\\n'", *ty as char, len),
                Piece::Raw(b) => format!("raw {:?}", String::from_utf8_lossy(&b[..b.len().min(24)])),
                Piece::Valid(k) => format!("valid-cmd#{}", k % 4),
                Piece::Pipeline { kind, count } => format!("valid-cmd#{} x {}", kind % 4, count),
            }).collect::<Vec<_>>())
        }
    }
}

/// stable signature of an input class (for the findings file): what makes the process die
fn death_signature(input: &Input, how: &str) -> String {
    let kind = if how.starts_with("refused giant allocation") {
        "giant-allocation"
    } else if how.contains("signal 11") || how.contains("signal 6") || how.contains("overflowed its stack") {
        "process-killed"
    } else {
        "process-died"
    };
    let input = match input {
        Input::Tcp { inner, .. } => inner.as_ref(),
        other => other,
    };
    let class = match input {
        Input::Tcp { .. } => "tcp",
        Input::Bytes { pieces, .. } => {
            if pieces.iter().any(|p| matches!(p, Piece::Nest { depth, .. } if *depth >= 1000)) {
                "deep-nesting"
            } else if pieces.iter().any(|p| matches!(p, Piece::Prefix { ty, .. } if *ty == b'*')) {
                "array-length-prefix"
            } else if pieces.iter().any(|p| matches!(p, Piece::Prefix { .. })) {
                "bulk-length-prefix"
            } else {
                "bytes"
            }
        }
        Input::Commands { cmds, .. } => {
            let names: Vec<&str> = cmds.iter().map(|(n, _)| NAMES[*n as usize % NAMES.len()][0]).collect();
            if names.iter().any(|n| n.starts_with("EVAL")) {
                "eval-numkeys"
            } else {
                "command"
            }
        }
    };
    format!("C16:{} input={}", kind, class)
}

pub fn check(input: &Input, obs: &mut Obs) -> Result<(), Fail> {
    let shown = describe(input);
    let t0 = std::time::Instant::now();
    let res = exec_once(input);
    if t0.elapsed() > Duration::from_secs(1) {
        obs.class("slower-than-1s-wall");
        if std::env::var("VERIF_SLOW").is_ok() {
            eprintln!("SLOW {:?}: {}", t0.elapsed(), shown.chars().take(400).collect::<String>());
        }
    }
    match res {
        Exec::Result(r) => {
            if r.reached_executor {
                obs.nontrivial = true;
                obs.class("reached-executor");
            }
            let inner_input = match input {
                Input::Tcp { inner, .. } => inner.as_ref(),
                other => other,
            };
            if r.signature.starts_with("harness:") {
                obs.class(format!("skipped:{}", r.signature));
            }
            if matches!(inner_input, Input::Bytes { pieces, .. } if pieces.iter().any(|p| matches!(p, Piece::Prefix { .. } | Piece::Nest { .. }))) {
                obs.nontrivial = true;
                obs.class("hostile-length-prefix-or-nesting");
            }
            obs.maximum("peak_bytes", r.peak as u64);
            if r.ok {
                Ok(())
            } else {
                Err(Fail::new(r.signature, format!("{}\n  input: {}", r.message, shown)))
            }
        }
        Exec::Died(how) => Err(Fail::new(death_signature(input, &how), format!("the proxy process died while handling the input: {}\n  input: {}", how, shown))),
        Exec::Hung => {
            // the bound IS the property here: confirm three times in fresh workers
            // (not while shrinking: there one time-out is taken at face value)
            let confirmations = if IS_SHRINKING.with(|f| f.get()) { 0 } else { 2 };
            for _ in 0..confirmations {
                match exec_once(input) {
                    Exec::Hung => continue,
                    _ => return Ok(()),
                }
            }
            let class = match input {
                Input::Commands { cmds, .. } if cmds.iter().any(|(n, _)| NAMES[*n as usize % NAMES.len()][0].starts_with("EVAL")) => "eval-numkeys",
                Input::Commands { .. } => "command",
                Input::Bytes { .. } => "bytes",
                Input::Tcp { .. } => "tcp",
            };
            Err(Fail::new(
                format!("C16:hang input={}", class),
                format!("handling the input did not finish within {} s of wall time in three fresh worker processes (CPU-bound: the virtual clock cannot advance)\n  input: {}", WALL_LIMIT.as_secs(), shown),
            ))
        }
    }
}

pub const RULE: &str = "inputs executed in child worker processes (abort/stack overflow/refused allocation = observation): (a) byte streams: raw bytes over a RESP-biased alphabet, hostile length prefixes (*2^31, *2^62, $2^63-1, *-2, *10^9), nesting '*1\\r\\n' up to depth 200000, valid pipelines up to 600 commands deep, truncations; (b) well-formed commands of every family the executor special-cases (UMCTL sub-commands incl. well-formed SETCLUSTER messages whose migration tags and peers carry hostile slot ranges (0-2^64-1, 16383-16384, 9-1, ...), UMFORWARD, UMSYNC, CLUSTER, CONFIG, AUTH, EVAL/EVALSHA numkeys, MGET/MSET/MSETNX/DEL/EXISTS, B*POP timeouts, string commands with compression on) with arguments from {missing, empty, non-UTF-8, 0, -1, 2^62, 2^63-1, 2^64-1, 2^64, long digit strings, keywords, keys, long strings, valid UTF-8 with two-byte characters at every alignment}, before and after metadata is set, 30 % with the slow log switched to record every request and read back at the end; fed through the real decoder and the real Session/ForwardHandler; oracle: process alive, no panic on any thread, peak live memory <= 16 MiB + 4096 x bytes received (a counting allocator refuses larger single requests), every request completes in bounded time (8 s wall, triple-confirmed; 3600 virtual s), a second connection still gets its PING answered; non-trivial = the input reached the executor or carries a hostile length prefix / nesting; distinct = hash of the input";

pub const RULE_TCP: &str = "[tcp] the same input classes (blocking commands excluded) written in generated fragments (1 B .. 4 KiB) on a real loopback TCP connection (30 %: the client disconnects right after writing, without reading; 20 %: it shuts down its sending direction and keeps reading) accepted by a loop that spawns the real handle_session per connection, in child worker processes; oracle: every complete request that precedes any malformed or incomplete data is answered, or the connection is closed, within 6 s wall (three attempts in fresh worlds before it counts); a PING on a second TCP connection is answered while the first is still open; after the clients disconnect both session tasks end; no panic on any thread, process alive, memory bound as above; non-trivial = at least one reply arrived or the input carries a hostile length prefix / nesting";

pub const RULE_FUZZ: &str = "libFuzzer (coverage-guided, ASan, fixed -seed and -runs per worker process, fresh corpus seeded with golden command pipelines and a command dictionary): the bytes of one client connection (first byte: metadata installed or not), up to 2 KiB, fed through the real decoder and the real Session/ForwardHandler inside the fuzzer process; in-target oracle: every request completes (virtual time), a second connection is served, no panic on any thread (libFuzzer aborts on any panic), no allocation above 512 MiB, no input slower than 60 s; every crash artifact is re-decided by the child-worker oracle (the proptest sub-check's) before it is reported";

pub fn run(ctx: &Ctx, findings: &Findings) -> PropReport {
    let mut subs = vec![];
    let mut fuzz_note: Option<String> = None;
    CASE_THREADS.store(false, std::sync::atomic::Ordering::Relaxed);
    MAX_SHRINK_ITERS.store(40, std::sync::atomic::Ordering::Relaxed);
    if let Some(path) = &ctx.replay {
        let v: serde_json::Value = serde_json::from_str(&std::fs::read_to_string(path).expect("replay file")).expect("json");
        if let Some(r) = replay_case::<Input>(ctx, findings, "inputs", &v, &check) {
            subs.push(r);
        }
        if let Some(r) = replay_case::<Input>(ctx, findings, "tcp", &v, &check) {
            subs.push(r);
        }
    } else {
        subs.push(drive(ctx, findings, "inputs", RULE, ctx.cases(40000, 800000), strategy, &check));
        // a violation found by the in-process driver ends the run: the TCP driver (real time, slower per
        // failing case) is only worth its time on a tree that passed the first one
        if subs.iter().all(|s| s.violations.is_empty()) {
            subs.push(drive(ctx, findings, "tcp", RULE_TCP, ctx.cases(4000, 80000), tcp_strategy, &check));
        }
        if ctx.tier == Tier::Thorough {
            let to_input = |bytes: &[u8]| Input::Bytes { with_meta: bytes.first().map(|b| b & 1 == 1).unwrap_or(false), pieces: vec![Piece::Raw(bytes.get(1..).unwrap_or(&[]).to_vec())] };
            let spec = crate::fuzzing::FuzzSpec {
                target: "c16_session",
                sub: "inputs",
                rule: RULE_FUZZ,
                // the world leaks ~0.3 MiB per input inside the fuzzer process (runtime/task reference cycles of a
                // proxy that is never shut down): the run count per process is bounded by memory, not time
                runs: ((5_000.0 * ctx.scale) as u64).max(200),
                max_len: 2048,
                timeout_s: 60,
                malloc_limit_mb: 512,
                detect_leaks: false,
                // a crash artifact is re-decided by the child-worker oracle (process boundary, counting allocator)
                confirm: &|bytes: &[u8], obs: &mut Obs| check(&to_input(bytes), obs),
                case_of: &|bytes: &[u8]| serde_json::to_value(to_input(bytes)).unwrap(),
            };
            match crate::fuzzing::run_fuzz(ctx, findings, &spec) {
                Some(r) => subs.push(r),
                None => fuzz_note = Some(crate::fuzzing::fuzz_missing_note("c16_session")),
            }
        }
    }
    PropReport {
        level: "exploration",
        subs,
        assumptions: vec![
            "sub-check inputs drives the session in-process (real decoder + real Session::handle_cmd + real ForwardHandler); sub-check tcp adds the real handle_session loop over loopback TCP (the accept loop is the harness's own three lines, server.rs' listener setup is not in the loop)".into(),
            "this is the one check where a wall-clock limit is part of the oracle (the property IS a time bound): 8 s per input, four orders of magnitude above the normal cost, confirmed in three fresh processes".into(),
            "worker threads use a 2 MiB stack like tokio's production workers".into(),
        ]
        .into_iter()
        .chain(fuzz_note)
        .collect(),
        extra: Default::default(),
    }
}
