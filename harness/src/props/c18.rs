//! C18 - failover needs a quorum of fresh, distinct reports.
use crate::engines::brokersim::*;
use crate::fw::*;
use crate::{ensure, fail};
use proptest::prelude::*;
use serde::{Deserialize, Serialize};
use std::collections::{BTreeMap, BTreeSet};

#[derive(Debug, Clone, Serialize, Deserialize)]
pub enum FOp {
    Report { p: u16, reporter: u8 },
    Age { k: u8 },
    Query,
    AddProxy { host: u8 },
    ReAdd { p: u16 },
    Remove { p: u16 },
    Failover { p: u16 },
    AddCluster,
    Snapshot,
}

#[derive(Debug, Clone, Serialize, Deserialize)]
pub struct FCase {
    pub hosts: Vec<u8>,
    pub quorum: u64,
    pub ttl: u64,
    pub ops: Vec<FOp>,
}

pub fn strategy() -> impl Strategy<Value = FCase> {
    let op = prop_oneof![
        12 => (prop_oneof![8 => 0u16..u16::MAX, 1 => Just(u16::MAX)], 0u8..5).prop_map(|(p, reporter)| FOp::Report { p, reporter }),
        4 => (0u8..6).prop_map(|k| FOp::Age { k }),
        6 => Just(FOp::Query),
        1 => (0u8..4).prop_map(|host| FOp::AddProxy { host }),
        2 => any::<u16>().prop_map(|p| FOp::ReAdd { p }),
        1 => any::<u16>().prop_map(|p| FOp::Remove { p }),
        2 => any::<u16>().prop_map(|p| FOp::Failover { p }),
        1 => Just(FOp::AddCluster),
        1 => Just(FOp::Snapshot),
    ];
    (
        prop::collection::vec(1u8..=3, 2..=3),
        1u64..=4,
        prop_oneof![Just(5u64), Just(60u64), Just(3600u64)],
        prop::collection::vec(op, 1..40),
    )
        .prop_map(|(hosts, quorum, ttl, ops)| FCase { hosts, quorum, ttl, ops })
}

/// reference model: address -> reporter -> ages (seconds) of every report made since the
/// address' marks were last cleared
#[derive(Default)]
struct Model {
    reports: BTreeMap<String, BTreeMap<String, Vec<u64>>>,
    /// addresses failed over and not re-registered / removed since
    failed_over: BTreeSet<String>,
}

pub fn check_case(case: &FCase, obs: &mut Obs) -> Result<(), Fail> {
    let cfg = BrokerCfg { hosts: case.hosts.clone(), migration_limit: 0, ordered: false, quorum: case.quorum, ttl: case.ttl };
    let mut sim = Sim::new(&cfg);
    let mut model = Model::default();
    let ttl = case.ttl;
    obs.class(format!("cfg:quorum={}", case.quorum));
    obs.class(format!("cfg:ttl={}", ttl));
    let mut reached_by_distinct = false;
    let mut lost_by_expiry = false;
    let mut ever_listed: BTreeSet<String> = BTreeSet::new();
    for (i, op) in case.ops.iter().enumerate() {
        let v = sim.views();
        let all: Vec<String> = v.store.all_proxies.keys().cloned().collect();
        let pick_addr = |p: u16| -> String {
            if p == u16::MAX || all.is_empty() {
                "127.99.0.1:7000".to_string()
            } else {
                all[pick(p, all.len())].clone()
            }
        };
        let ctx = |m: String| format!("{}\n  at step {} op={:?}", m, i, op);
        match op {
            FOp::Report { p, reporter } => {
                let addr = pick_addr(*p);
                let rep = format!("reporter{}", reporter);
                let before = v.store.failures.get(&addr).cloned().unwrap_or_default();
                sim.apply(&ROp::AddFailure { addr: addr.clone(), reporter: rep.clone() }).map_err(|e| Fail::new("C18:report-refused", ctx(e)))?;
                let after = sim.views().store.failures.get(&addr).cloned().unwrap_or_default();
                if before.contains_key(&rep) {
                    obs.class("duplicate-report");
                    // a repeated report by one reporter counts once: the set of reporters is unchanged
                    ensure!(
                        before.keys().collect::<Vec<_>>() == after.keys().collect::<Vec<_>>(),
                        "C18:duplicate-changed-reporter-set",
                        "{}",
                        ctx(format!("duplicate report by {} for {} changed the reporter set {:?} -> {:?}", rep, addr, before, after))
                    );
                } else {
                    ensure!(
                        after.len() == before.len() + 1 && after.contains_key(&rep),
                        "C18:report-not-recorded",
                        "{}",
                        ctx(format!("report by {} for {} not recorded: {:?} -> {:?}", rep, addr, before, after))
                    );
                }
                model.reports.entry(addr).or_default().entry(rep).or_default().push(0);
            }
            FOp::Age { k } => {
                // age every stored report by rewriting the snapshot (public restore path)
                let mut delta = [1u64, ttl / 3 + 1, ttl - 3, ttl + 3, 2 * ttl, 10 * ttl][(*k as usize).min(5)];
                // keep every resulting age out of the +-2s band around the ttl (wall-clock seconds)
                loop {
                    let bad = model
                        .reports
                        .values()
                        .flat_map(|m| m.values())
                        .flat_map(|ages| ages.iter())
                        .any(|a| {
                            let n = a + delta;
                            n + 2 >= ttl && n <= ttl + 2
                        });
                    if !bad {
                        break;
                    }
                    delta += 5;
                }
                let mut snap = sim.snapshot_json();
                if let Some(f) = snap.get_mut("failures").and_then(|f| f.as_object_mut()) {
                    for (_, reps) in f.iter_mut() {
                        if let Some(reps) = reps.as_object_mut() {
                            for (_, t) in reps.iter_mut() {
                                if let Some(ts) = t.as_i64() {
                                    *t = serde_json::json!(ts - delta as i64);
                                }
                            }
                        }
                    }
                }
                let store = serde_json::from_value(snap).map_err(|e| Fail::new("harness:snapshot", e.to_string()))?;
                sim.rt
                    .block_on(sim.svc.restore_metadata(store))
                    .map_err(|e| Fail::new("harness:restore", ctx(e.to_string())))?;
                for m in model.reports.values_mut() {
                    for ages in m.values_mut() {
                        for a in ages.iter_mut() {
                            *a += delta;
                        }
                    }
                }
                obs.class("aged");
            }
            FOp::Query => {
                let listed = sim.apply(&ROp::GetFailures).map_err(|e| Fail::new("C18:query-refused", ctx(e)))?;
                let listed: Vec<String> = serde_json::from_value(listed).unwrap_or_default();
                let post = sim.views();
                for addr in &listed {
                    ensure!(
                        post.store.all_proxies.contains_key(addr),
                        "C18:listed-unregistered",
                        "{}",
                        ctx(format!("{} is listed as failed but is not registered", addr))
                    );
                    let fresh: BTreeSet<&String> = model
                        .reports
                        .get(addr)
                        .map(|m| m.iter().filter(|(_, ages)| ages.iter().any(|a| *a < ttl)).map(|(r, _)| r).collect())
                        .unwrap_or_default();
                    ensure!(
                        fresh.len() as u64 >= case.quorum,
                        "C18:listed-without-fresh-quorum",
                        "{}",
                        ctx(format!(
                            "{} is listed as failed with quorum {} ttl {}s but only {} distinct reporters reported it within the ttl (all report ages: {:?})",
                            addr,
                            case.quorum,
                            ttl,
                            fresh.len(),
                            model.reports.get(addr)
                        ))
                    );
                    if fresh.len() >= 2 {
                        reached_by_distinct = true;
                    }
                    ever_listed.insert(addr.clone());
                }
                for a in &ever_listed {
                    if !listed.contains(a) && post.store.all_proxies.contains_key(a) {
                        let has_expired = model.reports.get(a).map(|m| m.values().any(|ages| ages.iter().all(|x| *x >= ttl))).unwrap_or(false);
                        if has_expired {
                            lost_by_expiry = true;
                        }
                    }
                }
                // expired reports are discarded: nothing older than the ttl remains stored
                let now = chrono::Utc::now().timestamp();
                for (addr, reps) in &post.store.failures {
                    for (r, t) in reps {
                        ensure!(
                            now - t < ttl as i64 + 2,
                            "C18:expired-report-kept",
                            "{}",
                            ctx(format!("after a query the report of {} for {} is {}s old (ttl {}s) and still stored", r, addr, now - t, ttl))
                        );
                    }
                }
                // the model forgets what the broker may legitimately have purged: reporters
                // all of whose reports are expired
                for m in model.reports.values_mut() {
                    m.retain(|_, ages| ages.iter().any(|a| *a < ttl));
                }
                // generator reach (not an alarm): did the broker list what the model expects?
                for (addr, m) in &model.reports {
                    if post.store.all_proxies.contains_key(addr) && m.len() as u64 >= case.quorum {
                        obs.class(if listed.contains(addr) { "model-expected:listed" } else { "model-expected:not-listed(first-report-expired)" });
                    }
                }
                obs.class(if listed.is_empty() { "query:none-failed" } else { "query:some-failed" });
            }
            FOp::AddProxy { host } => {
                let rop = sim.new_proxy_rop(*host);
                let _ = sim.apply(&rop);
            }
            FOp::ReAdd { p } => {
                if all.is_empty() {
                    continue;
                }
                let addr = pick_addr(*p);
                let Some(r) = v.store.all_proxies.get(&addr) else { continue };
                let had = v.store.failures.contains_key(&addr) || v.store.failed_proxies.contains(&addr);
                let _ = sim.apply(&ROp::ReAdd { addr: addr.clone(), nodes: r.node_addresses.clone(), host: r.host.clone(), index: None });
                let post = sim.views();
                ensure!(
                    !post.store.failures.contains_key(&addr) && !post.store.failed_proxies.contains(&addr),
                    "C18:reregistration-kept-marks",
                    "{}",
                    ctx(format!("re-registering {} left reports {:?} / failed mark {}", addr, post.store.failures.get(&addr), post.store.failed_proxies.contains(&addr)))
                );
                let failed = sim.rt.block_on(sim.svc.get_failed_proxies()).unwrap_or_default();
                ensure!(!failed.contains(&addr), "C18:reregistration-kept-marks", "{}", ctx(format!("{} still in failed proxies after re-registration", addr)));
                if had {
                    obs.class("reregistration-cleared-marks");
                }
                model.reports.remove(&addr);
                model.failed_over.remove(&addr);
            }
            FOp::Remove { p } => {
                let addr = pick_addr(*p);
                if sim.apply(&ROp::RemoveProxy { addr: addr.clone() }).is_ok() {
                    model.reports.remove(&addr);
                    model.failed_over.remove(&addr);
                    obs.class("removed-proxy");
                }
            }
            FOp::Failover { p } => {
                let addr = pick_addr(*p);
                let registered = v.store.all_proxies.contains_key(&addr);
                let r = sim.apply(&ROp::Failover { addr: addr.clone() });
                if registered && !matches!(&r, Err(c) if c == "PROXY_NOT_FOUND") {
                    model.failed_over.insert(addr.clone());
                    if v.store.all_proxies[&addr].cluster.is_none() {
                        // documented: failing over a free proxy consumes its reports
                        model.reports.remove(&addr);
                    }
                }
            }
            FOp::AddCluster => {
                let _ = sim.apply(&ROp::AddCluster { name: "c0".into(), nodes: 4 });
            }
            FOp::Snapshot => {}
        }
        // failed-proxy list only contains addresses that were failed over and not re-added
        let failed = sim.rt.block_on(sim.svc.get_failed_proxies()).unwrap_or_default();
        for a in &failed {
            ensure!(
                model.failed_over.contains(a),
                "C18:failed-mark-without-failover",
                "{}",
                ctx(format!("{} is in the failed-proxy list but was never failed over (or was re-registered since)", a))
            );
        }
    }
    if reached_by_distinct {
        obs.nontrivial = true;
        obs.class("quorum-by-distinct-reporters");
    }
    if lost_by_expiry {
        obs.nontrivial = true;
        obs.class("listing-lost-through-expiry");
    }
    let _ = fail_unused();
    Ok(())
}

fn fail_unused() -> Result<(), Fail> {
    if false {
        fail!("unused", "unused");
    }
    Ok(())
}

pub const RULE: &str = "generated histories of failure reports (known/unknown addresses, 5 reporter ids), report ageing (timestamps rewritten through snapshot -> restore, ages kept >2s away from the ttl), queries, registrations, re-registrations, removals and failovers, for quorum 1..4 and ttl in {5,60,3600}s; oracle: reference model of every report's age: listed => registered and >= quorum distinct reporters with a report younger than the ttl; duplicates leave the reporter set unchanged; no report older than ttl survives a query; re-registration clears reports and failed mark; failed list only holds failed-over addresses; non-trivial = a listing reached through >=2 distinct reporters or lost through expiry; distinct = hash of the generated case";

pub fn run(ctx: &Ctx, findings: &Findings) -> PropReport {
    let mut subs = vec![];
    if let Some(path) = &ctx.replay {
        let v: serde_json::Value = serde_json::from_str(&std::fs::read_to_string(path).expect("replay file")).expect("json");
        if let Some(r) = replay_case::<FCase>(ctx, findings, "reports", &v, &check_case) {
            subs.push(r);
        }
    } else {
        let n = ctx.cases(40000, 800000);
        subs.push(drive(ctx, findings, "reports", RULE, n, strategy, &check_case));
    }
    PropReport {
        level: "exploration",
        subs,
        assumptions: vec![
            "report ages are injected by rewriting the stored timestamps through the public snapshot/restore path; ages within 2 s of the ttl are excluded by construction (wall-clock second granularity)".into(),
            "the property is an 'only if': a proxy with enough fresh reports that is NOT listed is recorded as a class, not reported".into(),
        ],
        extra: Default::default(),
    }
}
