//! C20 - value compression is transparent.
use crate::engines::world::*;
use crate::fw::*;
use crate::props::c09::{ref_slot, slot_keys};
use crate::{ensure, fail};
use proptest::prelude::*;
use serde::{Deserialize, Serialize};
use std::collections::{BTreeMap, HashMap};
use std::convert::TryFrom;
use undermoon::common::cluster::{ClusterName, Range, RangeList, SlotRange, SlotRangeTag};
use undermoon::common::config::{ClusterConfig, CompressionStrategy};
use undermoon::common::proto::{ClusterMapFlags, ProxyClusterMeta};
use undermoon::protocol::{Array, BulkStr, Resp, RespVec};

#[derive(Debug, Clone, Serialize, Deserialize)]
pub enum ValGen {
    Empty,
    One(u8),
    Text(String),
    Zeros(u32),
    Random(u32, u64),
    /// bytes that look like the start of a zstd frame
    ZstdLike(Vec<u8>),
    /// an already compressed value
    Compressed(String),
}

impl ValGen {
    pub fn bytes(&self) -> Vec<u8> {
        match self {
            ValGen::Empty => vec![],
            ValGen::One(b) => vec![*b],
            ValGen::Text(s) => s.as_bytes().to_vec(),
            ValGen::Zeros(n) => vec![0u8; *n as usize],
            ValGen::Random(n, seed) => {
                let mut x = *seed | 1;
                (0..*n)
                    .map(|_| {
                        x ^= x << 13;
                        x ^= x >> 7;
                        x ^= x << 17;
                        (x >> 24) as u8
                    })
                    .collect()
            }
            ValGen::ZstdLike(tail) => {
                let mut v = vec![0x28, 0xb5, 0x2f, 0xfd];
                v.extend_from_slice(tail);
                v
            }
            ValGen::Compressed(s) => zstd::encode_all(s.as_bytes(), 1).unwrap_or_default(),
        }
    }
}

fn val() -> impl Strategy<Value = ValGen> {
    prop_oneof![
        2 => Just(ValGen::Empty),
        2 => any::<u8>().prop_map(ValGen::One),
        6 => "[ -~]{1,40}".prop_map(ValGen::Text),
        1 => (1u32..70000).prop_map(ValGen::Zeros),
        2 => (1u32..3000, any::<u64>()).prop_map(|(n, s)| ValGen::Random(n, s)),
        1 => (100000u32..1048576, any::<u64>()).prop_map(|(n, s)| ValGen::Random(n, s)),
        2 => prop::collection::vec(any::<u8>(), 0..20).prop_map(ValGen::ZstdLike),
        1 => "[a-z]{0,30}".prop_map(ValGen::Compressed),
    ]
}

#[derive(Debug, Clone, Serialize, Deserialize)]
pub enum COp {
    /// SET k v [EX|PX big] [NX|XX] [KEEPTTL]
    Set { k: u8, v: ValGen, ttl: u8, cond: u8, keepttl: bool },
    Setex { k: u8, v: ValGen, px: bool },
    Setnx { k: u8, v: ValGen },
    Getset { k: u8, v: ValGen },
    Mset { group: u8, vals: Vec<ValGen> },
    Msetnx { group: u8, vals: Vec<ValGen> },
    Get { k: u8 },
    Mget { group: u8, n: u8, missing: bool },
    Del { k: u8 },
    Restricted { which: u8, k: u8 },
    Other { which: u8, k: u8 },
}

#[derive(Debug, Clone, Serialize, Deserialize)]
pub struct CCase {
    /// 0 disabled, 1 set_get_only, 2 allow_all
    pub strategy: u8,
    pub active_redirection: bool,
    pub ops: Vec<(bool, COp)>, // (enter through proxy B?, op)
    /// max_redirections of both proxies when active redirection is on (0 = default 4)
    #[serde(default)]
    pub max_redirections: u8,
    /// the cluster starts with compression DISABLED, serves the first `enable_after` operations like that,
    /// is emptied (DEL of every key) and is then switched to `strategy` by a SETCLUSTER with the next
    /// epoch on the same nodes (0 = the strategy is there from the first metadata)
    #[serde(default)]
    pub enable_after: u8,
    #[serde(default)]
    pub backend_conn_num: u8,
    /// per-message delays (virtual microseconds): sub-commands of one multi-key command complete out of order
    #[serde(default)]
    pub delays: Vec<u32>,
}

fn op() -> impl Strategy<Value = COp> {
    prop_oneof![
        5 => (0u8..8, val(), 0u8..3, 0u8..3, any::<bool>()).prop_map(|(k, v, ttl, cond, keepttl)| COp::Set { k, v, ttl, cond, keepttl }),
        2 => (0u8..8, val(), any::<bool>()).prop_map(|(k, v, px)| COp::Setex { k, v, px }),
        2 => (0u8..8, val()).prop_map(|(k, v)| COp::Setnx { k, v }),
        2 => (0u8..8, val()).prop_map(|(k, v)| COp::Getset { k, v }),
        2 => (0u8..2, prop::collection::vec(val(), 1..=4)).prop_map(|(group, vals)| COp::Mset { group, vals }),
        2 => (0u8..2, prop::collection::vec(val(), 1..=4)).prop_map(|(group, vals)| COp::Msetnx { group, vals }),
        6 => (0u8..8).prop_map(|k| COp::Get { k }),
        3 => (0u8..2, 1u8..=4, any::<bool>()).prop_map(|(group, n, missing)| COp::Mget { group, n, missing }),
        1 => (0u8..8).prop_map(|k| COp::Del { k }),
        2 => (0u8..10, 0u8..8).prop_map(|(which, k)| COp::Restricted { which, k }),
        1 => (0u8..4, 0u8..8).prop_map(|(which, k)| COp::Other { which, k }),
    ]
}

pub fn strategy() -> impl Strategy<Value = CCase> {
    (prop_oneof![1 => Just(0u8), 2 => Just(1u8), 2 => Just(2u8)], prop::bool::weighted(0.3), prop::collection::vec((any::<bool>(), op()), 1..25), prop_oneof![3 => 2u8..=4, 1 => Just(255u8)], prop_oneof![2 => Just(0u8), 1 => 1u8..6], 1u8..=3, prop_oneof![1 => Just(vec![]), 1 => prop::collection::vec(0u32..3000, 2..9)])
        .prop_map(|(strategy, active_redirection, ops, max_redirections, enable_after, backend_conn_num, delays)| CCase { strategy, active_redirection, ops, max_redirections, enable_after, backend_conn_num, delays })
}

const PA: &str = "127.0.0.1:6000";
const PB: &str = "127.0.0.2:6000";
const RA: &str = "127.0.0.1:7001";
const RB: &str = "127.0.0.2:7001";

/// keys 0..3 live in group 0 (one hash tag, slot in A's half), 4..7 in group 1 (B's half)
fn key(k: u8) -> Vec<u8> {
    let group = (k / 4) % 2;
    let tag = if group == 0 { &slot_keys()[100] } else { &slot_keys()[9000] };
    // plain representatives only (no braces) are wrapped into a tag
    let tag: Vec<u8> = tag.iter().cloned().filter(|b| *b != b'{' && *b != b'}').collect();
    let mut v = b"{".to_vec();
    v.extend_from_slice(&tag);
    v.extend_from_slice(format!("}}key{}", k % 4).as_bytes());
    v
}

async fn set_cluster(world: &World, proxy: &str, local: (&str, usize, usize), peer: (&str, usize, usize), cfg: &ClusterConfig, epoch: u64) -> Result<(), Fail> {
    let sr = |a: usize, b: usize| vec![SlotRange { range_list: RangeList::new(vec![Range(a, b)]), tag: SlotRangeTag::None }];
    let mut l = HashMap::new();
    l.insert(local.0.to_string(), sr(local.1, local.2));
    let mut p = HashMap::new();
    p.insert(peer.0.to_string(), sr(peer.1, peer.2));
    let meta = ProxyClusterMeta::new(epoch, ClusterMapFlags { force: false, compress: false }, ClusterName::try_from("c").expect("n"), l, p, cfg.clone());
    let mut c = cmd(&["UMCTL", "SETCLUSTER"]);
    c.extend(meta.to_args().into_iter().map(|s| s.into_bytes()));
    let r = world.once(proxy, &c).await;
    ensure!(matches!(&r, Resp::Simple(s) if s == b"OK"), "harness:setcluster", "SETCLUSTER refused: {}", show_resp(&r));
    Ok(())
}

async fn run(case: &CCase, obs: &mut Obs) -> Result<(), Fail> {
    let world = World::new();
    let opts = ProxyOpts { active_redirection: case.active_redirection, max_redirections: case.max_redirections, backend_conn_num: case.backend_conn_num.max(1) as usize, ..ProxyOpts::default() };
    world.net.add_proxy(PA, &opts);
    world.net.add_proxy(PB, &opts);
    let ra = world.net.add_redis(RA, 1);
    let rb = world.net.add_redis(RB, 2);
    let mut cfg = ClusterConfig::default();
    cfg.compression_strategy = match case.strategy {
        0 => CompressionStrategy::Disabled,
        1 => CompressionStrategy::SetGetOnly,
        _ => CompressionStrategy::AllowAll,
    };
    let split = 8191;
    // sanity of the key placement
    if ref_slot(&key(0)) > split || ref_slot(&key(4)) <= split {
        fail!("harness:key-placement", "key groups are not in the intended halves");
    }
    if case.enable_after > 0 && case.strategy != 0 {
        // the cluster starts without compression, serves some traffic on both nodes through both proxies,
        // is emptied, and only then gets the strategy under test with the next epoch (same nodes)
        let mut plain = cfg.clone();
        plain.compression_strategy = CompressionStrategy::Disabled;
        set_cluster(&world, PA, (RA, 0, split), (PB, split + 1, 16383), &plain, 1).await?;
        set_cluster(&world, PB, (RB, split + 1, 16383), (PA, 0, split), &plain, 1).await?;
        for i in 0..case.enable_after {
            for k in [key(i % 4), key(4 + i % 4)] {
                for via in [PA, PB] {
                    let (r, _) = follow_moved(&world, via, &cmdb(&[b"SET", &k, b"warm-up"]), 3).await;
                    ensure!(matches!(&r, Resp::Simple(_)), "harness:warm-up", "warm-up SET replied {}", show_resp(&r));
                    let (r, _) = follow_moved(&world, via, &cmdb(&[b"GET", &k]), 3).await;
                    ensure!(matches!(&r, Resp::Bulk(BulkStr::Str(v)) if v == b"warm-up"), "C20:reply-differs", "with compression disabled GET of a value written as 'warm-up' replied {}", show_resp(&r));
                }
                let _ = follow_moved(&world, PA, &cmdb(&[b"DEL", &k]), 3).await;
            }
        }
        set_cluster(&world, PA, (RA, 0, split), (PB, split + 1, 16383), &cfg, 2).await?;
        set_cluster(&world, PB, (RB, split + 1, 16383), (PA, 0, split), &cfg, 2).await?;
        obs.class("strategy-enabled-after-serving-uncompressed-traffic");
    } else {
        set_cluster(&world, PA, (RA, 0, split), (PB, split + 1, 16383), &cfg, 1).await?;
        set_cluster(&world, PB, (RB, split + 1, 16383), (PA, 0, split), &cfg, 1).await?;
    }
    if !case.delays.is_empty() {
        world.net.gate.set_delays(case.delays.clone());
        obs.class(format!("message-delays:backend_conn_num={}", case.backend_conn_num.max(1)));
    }
    obs.class(format!("strategy:{}", ["disabled", "set_get_only", "allow_all"][case.strategy as usize]));
    if case.active_redirection {
        obs.class(format!("active-redirection:max_redirections={}", if case.max_redirections == 0 { "4".to_string() } else if case.max_redirections == 255 { "unlimited".to_string() } else { case.max_redirections.to_string() }));
    }
    let enabled = case.strategy != 0;

    let mut model: BTreeMap<Vec<u8>, Vec<u8>> = BTreeMap::new();
    let standin_of = |k: &[u8]| if ref_slot(k) <= split { ra.clone() } else { rb.clone() };
    for (n, (via_b, op)) in case.ops.iter().enumerate() {
        let start = if *via_b { PB } else { PA };
        let before = (ra.log.lock().len(), rb.log.lock().len());
        // build request, expected reply (None = no claim), list of (arg index, original value) that are values
        let mut values: Vec<(usize, Vec<u8>)> = vec![];
        let mut expect: Option<RespVec> = None;
        let mut restricted = false;
        let mut restricted_key: Option<Vec<u8>> = None;
        let request: Cmd = match op {
            COp::Set { k, v, ttl, cond, keepttl } => {
                let kb = key(*k);
                let vb = v.bytes();
                let mut c = cmdb(&[b"SET", &kb, &vb]);
                match ttl {
                    1 => c.extend(cmd(&["EX", "100000"])),
                    2 => c.extend(cmd(&["PX", "100000000"])),
                    _ => {}
                }
                match cond {
                    1 => c.push(b"NX".to_vec()),
                    2 => c.push(b"XX".to_vec()),
                    _ => {}
                }
                if *keepttl && *ttl == 0 {
                    c.push(b"KEEPTTL".to_vec());
                }
                let applies = match cond {
                    1 => !model.contains_key(&kb),
                    2 => model.contains_key(&kb),
                    _ => true,
                };
                if applies {
                    model.insert(kb, vb.clone());
                    expect = Some(Resp::Simple(b"OK".to_vec()));
                } else {
                    expect = Some(Resp::Bulk(BulkStr::Nil));
                }
                if c.len() > 3 {
                    obs.nontrivial = true;
                    obs.class("write:options-after-value");
                }
                values.push((2, vb));
                c
            }
            COp::Setex { k, v, px } => {
                let kb = key(*k);
                let vb = v.bytes();
                model.insert(kb.clone(), vb.clone());
                expect = Some(Resp::Simple(b"OK".to_vec()));
                values.push((3, vb.clone()));
                if *px {
                    cmdb(&[b"PSETEX", &kb, b"100000000", &vb])
                } else {
                    cmdb(&[b"SETEX", &kb, b"100000", &vb])
                }
            }
            COp::Setnx { k, v } => {
                let kb = key(*k);
                let vb = v.bytes();
                if model.contains_key(&kb) {
                    expect = Some(Resp::Integer(b"0".to_vec()));
                } else {
                    model.insert(kb.clone(), vb.clone());
                    expect = Some(Resp::Integer(b"1".to_vec()));
                }
                values.push((2, vb.clone()));
                cmdb(&[b"SETNX", &kb, &vb])
            }
            COp::Getset { k, v } => {
                let kb = key(*k);
                let vb = v.bytes();
                let old = model.insert(kb.clone(), vb.clone());
                expect = Some(match old {
                    Some(o) => Resp::Bulk(BulkStr::Str(o)),
                    None => Resp::Bulk(BulkStr::Nil),
                });
                values.push((2, vb.clone()));
                cmdb(&[b"GETSET", &kb, &vb])
            }
            COp::Mset { group, vals } | COp::Msetnx { group, vals } => {
                let nx = matches!(op, COp::Msetnx { .. });
                let mut c: Cmd = vec![if nx { b"MSETNX".to_vec() } else { b"MSET".to_vec() }];
                let keys: Vec<Vec<u8>> = (0..vals.len()).map(|i| key(group * 4 + i as u8)).collect();
                let any_exists = keys.iter().any(|k| model.contains_key(k));
                for (i, v) in vals.iter().enumerate() {
                    let vb = v.bytes();
                    c.push(keys[i].clone());
                    values.push((c.len(), vb.clone()));
                    c.push(vb.clone());
                    if !nx || !any_exists {
                        model.insert(keys[i].clone(), vb);
                    }
                }
                expect = Some(if nx {
                    Resp::Integer(if any_exists { b"0".to_vec() } else { b"1".to_vec() })
                } else {
                    Resp::Simple(b"OK".to_vec())
                });
                if vals.len() >= 2 {
                    obs.nontrivial = true;
                    obs.class("write:>=2-pairs");
                }
                c
            }
            COp::Get { k } => {
                let kb = key(*k);
                expect = Some(match model.get(&kb) {
                    Some(v) => Resp::Bulk(BulkStr::Str(v.clone())),
                    None => Resp::Bulk(BulkStr::Nil),
                });
                cmdb(&[b"GET", &kb])
            }
            COp::Mget { group, n, missing } => {
                let mut c = vec![b"MGET".to_vec()];
                let mut exp = vec![];
                for i in 0..*n {
                    let kb = key(group * 4 + i);
                    exp.push(match model.get(&kb) {
                        Some(v) => Resp::Bulk(BulkStr::Str(v.clone())),
                        None => Resp::Bulk(BulkStr::Nil),
                    });
                    c.push(kb);
                }
                if *missing {
                    // same hash tag, never written
                    let mut kb = key(group * 4);
                    kb.extend_from_slice(b"-never");
                    exp.push(Resp::Bulk(BulkStr::Nil));
                    c.push(kb);
                }
                expect = Some(Resp::Arr(Array::Arr(exp)));
                c
            }
            COp::Del { k } => {
                let kb = key(*k);
                expect = Some(Resp::Integer(if model.remove(&kb).is_some() { b"1".to_vec() } else { b"0".to_vec() }));
                cmdb(&[b"DEL", &kb])
            }
            COp::Restricted { which, k } => {
                restricted = true;
                let kb = key(*k);
                let c = match which {
                    0 => cmdb(&[b"APPEND", &kb, b"x"]),
                    1 => cmdb(&[b"STRLEN", &kb]),
                    2 => cmdb(&[b"GETRANGE", &kb, b"0", b"-1"]),
                    3 => cmdb(&[b"SETRANGE", &kb, b"0", b"x"]),
                    4 => cmdb(&[b"INCR", &kb]),
                    5 => cmdb(&[b"BITCOUNT", &kb]),
                    6 => cmdb(&[b"DECR", &kb]),
                    7 => cmdb(&[b"INCRBY", &kb, b"2"]),
                    8 => cmdb(&[b"GETBIT", &kb, b"0"]),
                    _ => cmdb(&[b"SETBIT", &kb, b"0", b"1"]),
                };
                restricted_key = Some(kb.clone());
                c
            }
            COp::Other { which, k } => {
                let kb = key(*k);
                match which {
                    0 => {
                        expect = Some(Resp::Integer(if model.contains_key(&kb) { b"1".to_vec() } else { b"0".to_vec() }));
                        cmdb(&[b"EXISTS", &kb])
                    }
                    1 => {
                        expect = Some(Resp::Integer(if model.contains_key(&kb) { b"1".to_vec() } else { b"0".to_vec() }));
                        cmdb(&[b"PERSIST-DUMMY-NOT-A-COMMAND", &kb]);
                        cmdb(&[b"EXISTS", &kb])
                    }
                    2 => cmdb(&[b"TTL", &kb]),
                    _ => cmdb(&[b"PTTL", &kb]),
                }
            }
        };
        let (reply, _path) = follow_moved(&world, start, &request, 3).await;
        let shown = show_cmd(&request);
        if enabled && values.iter().any(|(_, v)| !v.is_empty()) {
            obs.nontrivial = true;
            obs.class("write:compressed-non-empty-value");
        }
        // the backend log of this operation
        let la = ra.log_snapshot();
        let lb = rb.log_snapshot();
        let new: Vec<&LogEntry> = la[before.0..].iter().chain(lb[before.1..].iter()).collect();
        if restricted {
            if case.strategy != 1 {
                // the command reached Redis and may have changed the value: forget the key on both sides
                if let Some(kb) = &restricted_key {
                    model.remove(kb);
                    standin_of(kb).store.lock().remove(kb);
                }
            }
            if case.strategy == 1 {
                obs.class("restricted:refused");
                ensure!(
                    matches!(reply, Resp::Error(_)) && parse_moved(&reply).is_none(),
                    "C20:restricted-command-not-refused",
                    "[{}] via {} in set_get_only mode must be refused, reply {}",
                    shown,
                    start,
                    show_resp(&reply)
                );
                ensure!(new.is_empty(), "C20:restricted-command-reached-redis", "[{}] was refused but reached Redis: {:?}", shown, new.iter().map(|e| show_cmd(&e.cmd)).collect::<Vec<_>>());
            }
            continue;
        }
        if let Some(want) = &expect {
            ensure!(
                reply == *want,
                "C20:reply-differs",
                "op {} [{}] via {} (strategy {}, redirection {}): reply {} , expected {}",
                n,
                shown,
                start,
                case.strategy,
                case.active_redirection,
                show_resp(&reply),
                show_resp(want)
            );
        }
        // what reached Redis: keys and non-value arguments identical, value arguments decode to the original
        for e in &new {
            let name = upper(&e.cmd[0]);
            let value_idx: Vec<usize> = match name.as_str() {
                "SET" | "SETNX" | "GETSET" => vec![2],
                "SETEX" | "PSETEX" => vec![3],
                "MSETNX" | "MSET" => (2..e.cmd.len()).step_by(2).collect(),
                _ => vec![],
            };
            for (i, arg) in e.cmd.iter().enumerate().skip(1) {
                if value_idx.contains(&i) {
                    // find which original value this is: by key (the argument before it, or index 1)
                    let k = if name == "MSETNX" || name == "MSET" { &e.cmd[i - 1] } else { &e.cmd[1] };
                    let orig = model.get(k);
                    let decoded = if enabled { zstd::decode_all(arg.as_slice()).ok() } else { Some(arg.clone()) };
                    let ok = match (&decoded, values.iter().find(|(_, v)| Some(v) == decoded.as_ref())) {
                        (Some(_), Some(_)) => true,
                        _ => false,
                    };
                    ensure!(
                        ok,
                        "C20:stored-value-wrong",
                        "[{}]: backend command {} stores for key {:?} a value that {} one of the request's values (model value present: {})",
                        shown,
                        name,
                        String::from_utf8_lossy(k),
                        if enabled { "does not zstd-decode to" } else { "is not identical to" },
                        orig.is_some()
                    );
                } else {
                    ensure!(
                        request.iter().any(|a| a == arg),
                        "C20:non-value-argument-altered",
                        "[{}]: backend command {} carries argument {:?} that is not in the request",
                        shown,
                        show_cmd(&e.cmd),
                        String::from_utf8_lossy(&arg[..arg.len().min(40)])
                    );
                }
            }
        }
    }
    Ok(())
}

pub fn check(case: &CCase, obs: &mut Obs) -> Result<(), Fail> {
    let rt = world_runtime();
    let r = rt.block_on(run(case, obs));
    drop(rt);
    r
}

pub const RULE: &str = "two real proxies with one Redis stand-in each (slots split in half), compression strategy in {disabled, set_get_only, allow_all} delivered through UMCTL SETCLUSTER CONFIG, active redirection on/off; programs of 1..24 operations entering through either proxy (MOVED followed): SET k v [EX|PX] [NX|XX] [KEEPTTL], SETEX, PSETEX, SETNX, GETSET, MSET/MSETNX with 1..4 same-slot pairs, GET, MGET (incl. never-written keys), DEL, restricted string commands, EXISTS/TTL; values: empty, 1 byte, text, up to 70000 zeros, incompressible random up to 1 MiB, zstd-looking bytes, already-compressed data; oracle: reference model of the uncompressed semantics (every reply must equal the model's, i.e. the run with compression disabled), stand-in log: non-value arguments identical to the request, value arguments zstd-decode to the request's value; restricted commands refused and never reaching Redis in set_get_only; non-trivial = compression enabled with a non-empty value, options after the value, or >=2 pairs; distinct = hash of the case";

pub fn run_prop(ctx: &Ctx, findings: &Findings) -> PropReport {
    let mut subs = vec![];
    if let Some(path) = &ctx.replay {
        let v: serde_json::Value = serde_json::from_str(&std::fs::read_to_string(path).expect("replay file")).expect("json");
        if let Some(r) = replay_case::<CCase>(ctx, findings, "programs", &v, &check) {
            subs.push(r);
        }
    } else {
        let _ = slot_keys();
        subs.push(drive(ctx, findings, "programs", RULE, ctx.cases(6000, 120000), strategy, &check));
    }
    PropReport {
        level: "exploration",
        subs,
        assumptions: vec![
            "multi-key writes/reads use keys of one slot (hash tag), as the property states".into(),
            "in allow_all mode the results of restricted string commands are not judged (documented: they see compressed bytes)".into(),
        ],
        extra: Default::default(),
    }
}
