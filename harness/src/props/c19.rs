//! C19 - migration preserves key expiry.
use crate::fw::*;
use crate::{ensure, fail};
use proptest::prelude::*;
use serde::{Deserialize, Serialize};
use undermoon::migration::scan_migration::pttl_to_restore_expire_time;

#[derive(Debug, Clone, Serialize, Deserialize)]
pub struct PCase {
    pub pttl: Vec<u8>,
}

pub fn pttl_strategy() -> impl Strategy<Value = PCase> {
    let n = prop_oneof![
        2 => Just(-1i64),
        1 => Just(-2i64),
        3 => Just(0i64),
        2 => Just(1i64),
        4 => 2i64..100000,
        1 => Just((1i64 << 31) - 1),
        1 => Just(1i64 << 31),
        1 => Just((1i64 << 31) + 1),
        1 => Just(i64::MAX),
        2 => 0i64..=i64::MAX,
    ]
    .prop_map(|n| n.to_string().into_bytes());
    let malformed = prop_oneof![
        Just(b"".to_vec()),
        Just(b"abc".to_vec()),
        Just(b"12x".to_vec()),
        Just(b"9223372036854775808".to_vec()),
        Just(b"-".to_vec()),
        prop::collection::vec(any::<u8>(), 0..6),
    ];
    prop_oneof![12 => n, 1 => malformed].prop_map(|pttl| PCase { pttl })
}

/// the rule every RESTORE built from a PTTL reply must satisfy
pub fn check_ttl_argument(pttl: &[u8], ttl_arg: &[u8], path: &str) -> Result<&'static str, Fail> {
    let shown = String::from_utf8_lossy(pttl).to_string();
    let p = std::str::from_utf8(pttl).ok().and_then(|s| s.parse::<i64>().ok());
    let strict_decimal = pttl.iter().enumerate().all(|(i, c)| c.is_ascii_digit() || (i == 0 && *c == b'-' && pttl.len() > 1));
    match p {
        Some(-1) => {
            ensure!(
                ttl_arg == b"0",
                "C19:persistent-key-gets-expiry",
                "path={} pttl=-1 (persistent key): RESTORE ttl argument is {:?}, must be 0",
                path,
                String::from_utf8_lossy(ttl_arg)
            );
            Ok("persistent")
        }
        Some(n) if n >= 0 && strict_decimal => {
            let t = std::str::from_utf8(ttl_arg).ok().and_then(|s| s.parse::<i64>().ok());
            let class = if n == 0 { "pttl=0" } else if n == 1 { "pttl=1" } else if n >= (1 << 31) { "pttl>=2^31" } else { "pttl=small" };
            match t {
                Some(t) if t >= 1 && t <= n.max(1) => Ok(class),
                Some(0) => fail!(
                    format!("C19:ttl-lost path={} pttl={}", path, if n == 0 { "0".to_string() } else { "positive".to_string() }),
                    "path={} pttl={} (key has a remaining time-to-live): RESTORE ttl argument is 0, which Redis reads as 'no expiry' - the key becomes persistent",
                    path,
                    shown
                ),
                _ => fail!(
                    format!("C19:ttl-wrong path={}", path),
                    "path={} pttl={}: RESTORE ttl argument {:?} is not a positive integer <= the ttl read",
                    path,
                    shown,
                    String::from_utf8_lossy(ttl_arg)
                ),
            }
        }
        Some(-2) => Ok("key-not-found(no claim at function level)"),
        _ => Ok("malformed-or-out-of-domain(no claim)"),
    }
}

pub fn check_pttl(case: &PCase, obs: &mut Obs) -> Result<(), Fail> {
    let out = pttl_to_restore_expire_time(case.pttl.clone());
    let class = check_ttl_argument(&case.pttl, &out, "function")?;
    obs.class(format!("pttl-class:{}", class));
    if class.starts_with("pttl") {
        obs.nontrivial = true;
    }
    Ok(())
}

pub const RULE_FN: &str = "[function] pttl_to_restore_expire_time over every class of PTTL reply (-2, -1, 0, 1, small, 2^31-1..2^31+1, 2^63-1, uniform positive, malformed bytes); oracle: -1 -> '0'; p >= 0 -> decimal t with 1 <= t <= max(p,1), never '0'; non-trivial = p >= 0; distinct = the reply bytes";

pub fn run(ctx: &Ctx, findings: &Findings) -> PropReport {
    let mut subs = vec![];
    if let Some(path) = &ctx.replay {
        let v: serde_json::Value = serde_json::from_str(&std::fs::read_to_string(path).expect("replay file")).expect("json");
        if let Some(r) = replay_case::<PCase>(ctx, findings, "function", &v, &check_pttl) {
            subs.push(r);
        }
    } else {
        CASE_THREADS.store(false, std::sync::atomic::Ordering::Relaxed);
        subs.push(drive(ctx, findings, "function", RULE_FN, ctx.cases(200000, 4000000), pttl_strategy, &check_pttl));
        CASE_THREADS.store(true, std::sync::atomic::Ordering::Relaxed);
    }
    PropReport {
        level: "exploration",
        subs,
        assumptions: vec!["malformed PTTL replies are outside the domain Redis can produce; no claim is made for them".into()],
        extra: Default::default(),
    }
}
