//! C19 - migration preserves key expiry.
use crate::fw::*;
use crate::{ensure, fail};
use proptest::prelude::*;
use serde::{Deserialize, Serialize};
use undermoon::migration::scan_migration::pttl_to_restore_expire_time;

#[derive(Debug, Clone, Serialize, Deserialize)]
pub struct PCase {
    pub pttl: Vec<u8>,
}

pub fn pttl_strategy() -> impl Strategy<Value = PCase> {
    let n = prop_oneof![
        2 => Just(-1i64),
        1 => Just(-2i64),
        3 => Just(0i64),
        2 => Just(1i64),
        4 => 2i64..100000,
        1 => Just((1i64 << 31) - 1),
        1 => Just(1i64 << 31),
        1 => Just((1i64 << 31) + 1),
        1 => Just(i64::MAX),
        2 => 0i64..=i64::MAX,
        // log-uniform magnitudes: seconds, days, years, ... in milliseconds
        3 => (0u32..18).prop_flat_map(|k| 10i64.pow(k)..10i64.pow(k + 1)),
    ]
    .prop_map(|n| n.to_string().into_bytes());
    let malformed = prop_oneof![
        Just(b"".to_vec()),
        Just(b"abc".to_vec()),
        Just(b"12x".to_vec()),
        Just(b"9223372036854775808".to_vec()),
        Just(b"-".to_vec()),
        prop::collection::vec(any::<u8>(), 0..6),
    ];
    prop_oneof![12 => n, 1 => malformed].prop_map(|pttl| PCase { pttl })
}

/// the rule every RESTORE built from a PTTL reply must satisfy
pub fn check_ttl_argument(pttl: &[u8], ttl_arg: &[u8], path: &str) -> Result<&'static str, Fail> {
    let shown = String::from_utf8_lossy(pttl).to_string();
    let p = std::str::from_utf8(pttl).ok().and_then(|s| s.parse::<i64>().ok());
    let strict_decimal = pttl.iter().enumerate().all(|(i, c)| c.is_ascii_digit() || (i == 0 && *c == b'-' && pttl.len() > 1));
    match p {
        Some(-1) => {
            ensure!(
                ttl_arg == b"0",
                "C19:persistent-key-gets-expiry",
                "path={} pttl=-1 (persistent key): RESTORE ttl argument is {:?}, must be 0",
                path,
                String::from_utf8_lossy(ttl_arg)
            );
            Ok("persistent")
        }
        Some(n) if n >= 0 && strict_decimal => {
            let t = std::str::from_utf8(ttl_arg).ok().and_then(|s| s.parse::<i64>().ok());
            let class = if n == 0 {
                "pttl=0"
            } else if n == 1 {
                "pttl=1"
            } else if n >= (1 << 31) {
                "pttl>=2^31"
            } else if n >= 86_400_000 {
                "pttl>=1day"
            } else {
                "pttl=small"
            };
            match t {
                Some(t) if t >= 1 && t <= n.max(1) => Ok(class),
                Some(0) => fail!(
                    format!("C19:ttl-lost path={} pttl={}", path, if n == 0 { "0".to_string() } else { "positive".to_string() }),
                    "path={} pttl={} (key has a remaining time-to-live): RESTORE ttl argument is 0, which Redis reads as 'no expiry' - the key becomes persistent",
                    path,
                    shown
                ),
                _ => fail!(
                    format!("C19:ttl-wrong path={}", path),
                    "path={} pttl={}: RESTORE ttl argument {:?} is not a positive integer <= the ttl read",
                    path,
                    shown,
                    String::from_utf8_lossy(ttl_arg)
                ),
            }
        }
        Some(-2) => Ok("key-not-found(no claim at function level)"),
        _ => Ok("malformed-or-out-of-domain(no claim)"),
    }
}

pub fn check_pttl(case: &PCase, obs: &mut Obs) -> Result<(), Fail> {
    let out = pttl_to_restore_expire_time(case.pttl.clone());
    let class = check_ttl_argument(&case.pttl, &out, "function")?;
    obs.class(format!("pttl-class:{}", class));
    if class.starts_with("pttl") {
        obs.nontrivial = true;
    }
    Ok(())
}

// --- path level: the three transfer paths inside the migration world ------------------

use crate::engines::migworld::*;
use crate::engines::world::*;
use crate::props::c03;
use crate::props::c09::slot_keys;
use std::collections::BTreeMap;
use std::time::Duration;

#[derive(Debug, Clone, Serialize, Deserialize)]
pub struct PathCase {
    /// 0 scan, 1 pull (non-deleting command at the destination), 2 push (deleting command -> UMSYNC)
    pub path: u8,
    /// remaining time-to-live of each key in microseconds when the migration starts; 0 = persistent
    pub ttls_us: Vec<u64>,
    pub delays: Vec<u32>,
    pub scan_count: u8,
}

pub fn path_strategy() -> impl Strategy<Value = PathCase> {
    let ttl = prop_oneof![
        2 => Just(0u64),
        3 => 1u64..1000,          // less than a millisecond left: PTTL 0
        2 => 1000u64..3000,
        2 => 3000u64..100000,
        2 => 1_000_000u64..100_000_000,
        // hours .. centuries (log-uniform): a threshold anywhere on the scale is crossed
        2 => (9u32..17).prop_flat_map(|k| 10u64.pow(k)..10u64.pow(k + 1)),
    ];
    (0u8..3, prop::collection::vec(ttl, 1..8), prop::collection::vec(prop_oneof![3 => Just(0u32), 2 => 0u32..400, 1 => 0u32..3000], 1..12), prop_oneof![Just(1u8), Just(2u8), Just(16u8)])
        .prop_map(|(path, ttls_us, delays, scan_count)| PathCase { path, ttls_us, delays, scan_count })
}

/// every RESTORE that reached the destination must be justified by an earlier PTTL reply for
/// that key on the source (existential match: the three paths interleave)
pub fn check_restores(mig: &Mig, path: &str, obs: &mut Obs) -> Result<usize, Fail> {
    let src = mig.src_redis.log_snapshot();
    let dst = mig.dst_redis.log_snapshot();
    let mut n = 0;
    for r in dst.iter().filter(|e| upper(&e.cmd[0]) == "RESTORE" && e.cmd.len() >= 4) {
        let key = &r.cmd[1];
        let ttl_arg = &r.cmd[2];
        let reads: Vec<Vec<u8>> = src
            .iter()
            .filter(|e| upper(&e.cmd[0]) == "PTTL" && e.cmd.get(1) == Some(key) && e.at <= r.at)
            .filter_map(|e| match &e.reply {
                undermoon::protocol::Resp::Integer(i) => Some(i.clone()),
                _ => None,
            })
            .collect();
        if reads.is_empty() {
            fail!(
                format!("C19:restore-without-pttl path={}", path),
                "path={}: RESTORE of key {:?} with ttl argument {:?} reached the destination but no PTTL for that key was read from the source before",
                path,
                String::from_utf8_lossy(key),
                String::from_utf8_lossy(ttl_arg)
            );
        }
        let mut last_err = None;
        let mut justified = false;
        for p in &reads {
            if p == b"-2" {
                continue;
            }
            match check_ttl_argument(p, ttl_arg, path) {
                Ok(class) => {
                    justified = true;
                    obs.class(format!("restore:{}:{}", path, class));
                    if class.starts_with("pttl") {
                        obs.nontrivial = true;
                    }
                    break;
                }
                Err(e) => last_err = Some(e),
            }
        }
        if !justified {
            return Err(last_err.unwrap_or_else(|| {
                Fail::new(
                    format!("C19:restore-of-missing-key path={}", path),
                    format!("path={}: key {:?} was restored although every PTTL read said -2 (key not found)", path, String::from_utf8_lossy(key)),
                )
            }));
        }
        n += 1;
    }
    Ok(n)
}

async fn run_path(case: &PathCase, obs: &mut Obs) -> Result<(), Fail> {
    let cfg = MigCfg { scan_count: case.scan_count as u64, ..MigCfg::default() };
    let mig = Mig::build(cfg.clone()).await.map_err(|e| Fail::new("harness:build", e))?;
    let path = ["scan", "pull", "push"][case.path as usize % 3];
    let width = cfg.range.1 - cfg.range.0 + 1;
    let now = tokio::time::Instant::now();
    let mut keys: Vec<(Vec<u8>, u64)> = vec![];
    for (i, ttl) in case.ttls_us.iter().enumerate() {
        let slot = cfg.range.0 + (i * (width / case.ttls_us.len())).min(width - 1);
        let k = slot_keys()[slot].clone();
        let expire_at = if *ttl == 0 { None } else { Some(now + Duration::from_micros(*ttl)) };
        mig.src_redis.store.lock().insert(k.clone(), Entry { val: Val::Str(format!("v{}", i).into_bytes()), expire_at });
        keys.push((k, *ttl));
    }
    mig.world.net.gate.set_delays(case.delays.clone());
    if case.path != 0 {
        mig.world.net.gate.hold("SCAN");
    }
    mig.install(2, 1, 2, &[DST, SRC, BY]).await.map_err(|e| Fail::new("harness:install", e))?;
    if case.path != 0 {
        // wait until the destination serves the range (PRESWITCH passed), then touch every key there
        let ok = tokio::time::timeout(Duration::from_secs(20), async {
            while !mig.trace_has("UMCTL:PRESWITCH", DST) {
                tokio::time::sleep(Duration::from_micros(50)).await;
            }
        })
        .await
        .is_ok();
        ensure!(ok, "harness:phase", "PRESWITCH was never sent");
        tokio::time::sleep(Duration::from_micros(10)).await;
        let client = mig.world.client(DST).expect("dst");
        for (k, _) in &keys {
            let c = if case.path == 1 { cmdb(&[b"GET", k]) } else { cmdb(&[b"LPOP", k]) };
            let _ = tokio::time::timeout(Duration::from_secs(5), client.cmd(&c)).await;
        }
        mig.world.net.gate.release("SCAN");
    }
    let finished = tokio::time::timeout(Duration::from_secs(60), async {
        loop {
            if !mig.finished(SRC).await.is_empty() && !mig.finished(DST).await.is_empty() {
                break;
            }
            tokio::time::sleep(Duration::from_millis(2)).await;
        }
    })
    .await
    .is_ok();
    ensure!(finished, "harness:migration-did-not-finish", "migration did not finish");
    let n = check_restores(&mig, path, obs)?;
    if case.path == 1 && n > 0 && mig.trace_count("UMSYNC", SRC) == 0 {
        obs.class("path:pull-exercised");
    }
    if case.path == 2 && mig.trace_count("UMSYNC", SRC) > 0 {
        obs.class("path:push-exercised");
    }
    if case.path == 0 && n > 0 {
        obs.class("path:scan-exercised");
    }
    // afterwards: persistent keys are persistent on the destination; keys that had a TTL and
    // still exist have one
    for (k, ttl) in &keys {
        if let Some(e) = mig.dst_redis.get_raw(k) {
            if *ttl == 0 {
                ensure!(
                    e.expire_at.is_none(),
                    "C19:persistent-key-gets-expiry",
                    "path={}: key {:?} was persistent on the source but has an expiry on the destination",
                    path,
                    String::from_utf8_lossy(k)
                );
            } else {
                ensure!(
                    e.expire_at.is_some(),
                    format!("C19:ttl-lost path={} pttl=after-migration", path),
                    "path={}: key {:?} had {} us to live when the migration started and is PERSISTENT on the destination",
                    path,
                    String::from_utf8_lossy(k),
                    ttl
                );
            }
        }
    }
    Ok(())
}

pub fn check_path(case: &PathCase, obs: &mut Obs) -> Result<(), Fail> {
    let rt = world_runtime();
    let r = rt.block_on(run_path(case, obs));
    drop(rt);
    r
}

/// random C03 worlds with expiring keys: only the RESTORE justification rule is checked
pub fn check_world(case: &c03::DCase, obs: &mut Obs) -> Result<(), Fail> {
    let rt = world_runtime();
    let r = rt.block_on(async {
        let mut init = BTreeMap::new();
        let ttl_of = |i: u8| -> Option<Duration> {
            match i % 4 {
                0 => None,
                1 => Some(Duration::from_micros(300 + 977 * i as u64)),
                2 => Some(Duration::from_millis(20 + i as u64)),
                _ => Some(Duration::from_secs(1000)),
            }
        };
        let r = c03::run_world(case, &ttl_of, &mut init).await?;
        check_restores(&r.mig, "mixed", obs)?;
        c03::classify_paths(&r.mig, obs);
        Ok(())
    });
    drop(rt);
    r
}

pub const RULE_PATH: &str = "[paths] the real migration between two real proxies with keys whose remaining time-to-live is generated (persistent, < 1 ms so that PTTL reads 0 on the virtual clock, 1..3 ms, ms..s, hours..centuries log-uniform), transferred by a forced path: scan only / on-demand pull (SCAN held, GET at the destination) / push (SCAN held, a deleting-type command at the destination -> UMSYNC); [worlds] random C03 worlds with expiring keys; oracle from the stand-in logs: every RESTORE reaching the destination is justified by an earlier PTTL reply p for that key on the source (p=-1 -> ttl 0; p>=0 -> 1 <= ttl <= max(p,1), never 0); persistent keys stay persistent, keys with a TTL keep one; non-trivial = a key with a TTL was transferred; distinct = hash of the case";

pub const RULE_FN: &str = "[function] pttl_to_restore_expire_time over every class of PTTL reply (-2, -1, 0, 1, small, 2^31-1..2^31+1, 2^63-1, uniform positive, log-uniform magnitudes 10^0..10^18 ms, malformed bytes); oracle: -1 -> '0'; p >= 0 -> decimal t with 1 <= t <= max(p,1), never '0'; non-trivial = p >= 0; distinct = the reply bytes";

pub fn run(ctx: &Ctx, findings: &Findings) -> PropReport {
    let mut subs = vec![];
    if let Some(path) = &ctx.replay {
        let v: serde_json::Value = serde_json::from_str(&std::fs::read_to_string(path).expect("replay file")).expect("json");
        if let Some(r) = replay_case::<PCase>(ctx, findings, "function", &v, &check_pttl) {
            subs.push(r);
        }
        if let Some(r) = replay_case::<PathCase>(ctx, findings, "paths", &v, &check_path) {
            subs.push(r);
        }
        if let Some(r) = replay_case::<c03::DCase>(ctx, findings, "worlds", &v, &check_world) {
            subs.push(r);
        }
    } else {
        CASE_THREADS.store(false, std::sync::atomic::Ordering::Relaxed);
        subs.push(drive(ctx, findings, "function", RULE_FN, ctx.cases(200000, 4000000), pttl_strategy, &check_pttl));
        CASE_THREADS.store(true, std::sync::atomic::Ordering::Relaxed);
        let _ = slot_keys();
        subs.push(drive(ctx, findings, "paths", RULE_PATH, ctx.cases(3000, 60000), path_strategy, &check_path));
        subs.push(drive(ctx, findings, "worlds", RULE_PATH, ctx.cases(1000, 20000), || c03::strategy(8000), &check_world));
    }
    PropReport {
        level: "exploration",
        subs,
        assumptions: vec![
            "malformed PTTL replies are outside the domain Redis can produce; no claim is made for them".into(),
            "the RESTORE ttl is compared with the PTTL value read (relative), not with the key's original absolute expiry: transfer latency legitimately shifts the instant".into(),
        ],
        extra: Default::default(),
    }
}
