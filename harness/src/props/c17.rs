//! C17 - control-plane messages survive their wire encodings.
use crate::engines::brokersim::{self, Sim, VProxy, VSlotRange, VTag};
use crate::fw::*;
use crate::{ensure, fail};
use proptest::prelude::*;
use serde::{Deserialize, Serialize};
use std::collections::{BTreeMap, HashMap};
use std::convert::TryFrom;
use undermoon::common::cluster::{ClusterName, MigrationMeta, MigrationTaskMeta, Range, RangeList, ReplPeer, SlotRange, SlotRangeTag};
use undermoon::common::config::{ClusterConfig, CompressionStrategy, MigrationConfig};
use undermoon::common::proto::{ClusterMapFlags, ProxyClusterMeta};
use undermoon::migration::task::SwitchArg;
use undermoon::protocol::{Array, BulkStr, Resp, RespVec};
use undermoon::replication::replicator::{encode_repl_meta, MasterMeta, ReplicaMeta, ReplicatorMeta};

// ---------------------------------------------------------------------------
// generated message model
// ---------------------------------------------------------------------------

#[derive(Debug, Clone, Serialize, Deserialize, PartialEq, Eq, PartialOrd, Ord)]
pub struct GMeta {
    pub epoch: u64,
    pub sp: String,
    pub sn: String,
    pub dp: String,
    pub dn: String,
}

#[derive(Debug, Clone, Serialize, Deserialize, PartialEq, Eq, PartialOrd, Ord)]
pub struct GSlot {
    pub ranges: Vec<(usize, usize)>,
    /// 0 stable, 1 migrating, 2 importing
    pub tag: u8,
    pub meta: GMeta,
}

#[derive(Debug, Clone, Serialize, Deserialize, PartialEq, Eq)]
pub struct GConfig {
    pub strategy: u8,
    pub max_migration_time: u64,
    pub max_blocking_time: u64,
    pub scan_interval: u64,
    pub scan_count: u64,
}

#[derive(Debug, Clone, Serialize, Deserialize)]
pub struct GMsg {
    pub epoch: u64,
    pub force: bool,
    pub name: String,
    pub local: Vec<Vec<GSlot>>,
    pub peer: Vec<Vec<GSlot>>,
    pub config: GConfig,
}

fn addr(kind: &str, i: usize) -> String {
    match kind {
        "node" => format!("10.0.{}.1:{}", i, 7000 + i),
        _ => format!("10.1.{}.1:{}", i, 6000 + i),
    }
}

fn epoch_strategy() -> impl Strategy<Value = u64> {
    prop_oneof![6 => 0u64..1000, 1 => Just(0u64), 1 => Just(u64::MAX), 1 => any::<u64>()]
}

fn ranges_strategy() -> impl Strategy<Value = Vec<(usize, usize)>> {
    (0usize..13000, prop::collection::vec((1usize..200, 0usize..300), 1..=5)).prop_map(|(base, parts)| {
        let mut out = vec![];
        let mut pos = base;
        for (i, (gap, len)) in parts.into_iter().enumerate() {
            let start = if i == 0 { pos } else { pos + 1 + gap };
            let end = start + len;
            out.push((start, end));
            pos = end;
        }
        out
    })
}

fn slot_strategy() -> impl Strategy<Value = GSlot> {
    (ranges_strategy(), prop_oneof![3 => Just(0u8), 1 => Just(1u8), 1 => Just(2u8)], epoch_strategy(), 0usize..8, 0usize..8).prop_map(
        |(ranges, tag, epoch, a, b)| GSlot {
            ranges,
            tag,
            meta: GMeta { epoch, sp: addr("proxy", a), sn: addr("node", a), dp: addr("proxy", b + 8), dn: addr("node", b + 8) },
        },
    )
}

fn config_strategy() -> impl Strategy<Value = GConfig> {
    let n = || prop_oneof![3 => 0u64..100000, 1 => Just(0u64), 1 => Just(u64::MAX), 1 => any::<u64>()];
    (0u8..3, n(), n(), n(), prop_oneof![3 => 1u64..1000, 1 => Just(1u64), 1 => Just(u64::MAX)]).prop_map(
        |(strategy, max_migration_time, max_blocking_time, scan_interval, scan_count)| GConfig {
            strategy,
            max_migration_time,
            max_blocking_time,
            scan_interval,
            scan_count,
        },
    )
}

pub fn msg_strategy() -> impl Strategy<Value = GMsg> {
    (
        epoch_strategy(),
        any::<bool>(),
        prop_oneof![1 => Just(String::new()), 6 => "[a-zA-Z0-9@_-]{1,31}"],
        prop::collection::vec(prop::collection::vec(slot_strategy(), 0..4), 0..6),
        prop::collection::vec(prop::collection::vec(slot_strategy(), 0..4), 0..6),
        prop_oneof![1 => Just(GConfig { strategy: 0, max_migration_time: 10800, max_blocking_time: 10000, scan_interval: 500, scan_count: 16 }), 3 => config_strategy()],
    )
        .prop_map(|(epoch, force, name, local, peer, config)| GMsg { epoch, force, name, local, peer, config })
}

fn to_slot_range(g: &GSlot) -> SlotRange {
    let rl = RangeList::new(g.ranges.iter().map(|(a, b)| Range(*a, *b)).collect());
    let meta = MigrationMeta {
        epoch: g.meta.epoch,
        src_proxy_address: g.meta.sp.clone(),
        src_node_address: g.meta.sn.clone(),
        dst_proxy_address: g.meta.dp.clone(),
        dst_node_address: g.meta.dn.clone(),
    };
    SlotRange {
        range_list: rl,
        tag: match g.tag {
            0 => SlotRangeTag::None,
            1 => SlotRangeTag::Migrating(meta),
            _ => SlotRangeTag::Importing(meta),
        },
    }
}

fn from_slot_range(s: &SlotRange) -> GSlot {
    let ranges = s.range_list.get_ranges().iter().map(|r| (r.start(), r.end())).collect();
    let (tag, meta) = match &s.tag {
        SlotRangeTag::None => (0u8, None),
        SlotRangeTag::Migrating(m) => (1, Some(m)),
        SlotRangeTag::Importing(m) => (2, Some(m)),
    };
    let meta = match meta {
        Some(m) => GMeta {
            epoch: m.epoch,
            sp: m.src_proxy_address.clone(),
            sn: m.src_node_address.clone(),
            dp: m.dst_proxy_address.clone(),
            dn: m.dst_node_address.clone(),
        },
        None => GMeta { epoch: 0, sp: String::new(), sn: String::new(), dp: String::new(), dn: String::new() },
    };
    GSlot { ranges, tag, meta }
}

fn to_config(c: &GConfig) -> ClusterConfig {
    ClusterConfig {
        compression_strategy: match c.strategy {
            0 => CompressionStrategy::Disabled,
            1 => CompressionStrategy::SetGetOnly,
            _ => CompressionStrategy::AllowAll,
        },
        migration_config: MigrationConfig {
            max_migration_time: c.max_migration_time,
            max_blocking_time: c.max_blocking_time,
            scan_interval: c.scan_interval,
            scan_count: c.scan_count,
        },
    }
}

fn from_config(c: &ClusterConfig) -> GConfig {
    GConfig {
        strategy: match c.compression_strategy {
            CompressionStrategy::Disabled => 0,
            CompressionStrategy::SetGetOnly => 1,
            CompressionStrategy::AllowAll => 2,
        },
        max_migration_time: c.migration_config.max_migration_time,
        max_blocking_time: c.migration_config.max_blocking_time,
        scan_interval: c.migration_config.scan_interval,
        scan_count: c.migration_config.scan_count,
    }
}

/// the value a message denotes, in comparable form; nodes without any slot range carry no
/// information in the plain encoding (one entry per range) and are left out on both sides
#[derive(Debug, Clone, PartialEq, Eq)]
pub struct RefMeta {
    pub epoch: u64,
    pub force: bool,
    pub compress: bool,
    pub name: String,
    pub local: BTreeMap<String, Vec<GSlot>>,
    pub peer: BTreeMap<String, Vec<GSlot>>,
    pub config: GConfig,
}

fn gslot_plain(mut s: GSlot) -> GSlot {
    if s.tag == 0 {
        s.meta = GMeta { epoch: 0, sp: String::new(), sn: String::new(), dp: String::new(), dn: String::new() };
    }
    s
}

fn expected(msg: &GMsg, compress: bool) -> RefMeta {
    let mk = |v: &Vec<Vec<GSlot>>, kind: &str| -> BTreeMap<String, Vec<GSlot>> {
        v.iter()
            .enumerate()
            .filter(|(_, s)| !s.is_empty())
            .map(|(i, s)| (addr(kind, i), s.iter().cloned().map(gslot_plain).collect()))
            .collect()
    };
    RefMeta {
        epoch: msg.epoch,
        force: msg.force,
        compress,
        name: msg.name.clone(),
        local: mk(&msg.local, "node"),
        peer: mk(&msg.peer, "proxy"),
        config: msg.config.clone(),
    }
}

fn build(msg: &GMsg, compress: bool) -> ProxyClusterMeta {
    let mk = |v: &Vec<Vec<GSlot>>, kind: &str| -> HashMap<String, Vec<SlotRange>> {
        v.iter().enumerate().map(|(i, s)| (addr(kind, i), s.iter().map(to_slot_range).collect())).collect()
    };
    ProxyClusterMeta::new(
        msg.epoch,
        ClusterMapFlags { force: msg.force, compress },
        ClusterName::try_from(msg.name.as_str()).expect("generated cluster name"),
        mk(&msg.local, "node"),
        mk(&msg.peer, "proxy"),
        to_config(&msg.config),
    )
}

fn observed(m: &ProxyClusterMeta) -> RefMeta {
    let mk = |h: &HashMap<String, Vec<SlotRange>>| -> BTreeMap<String, Vec<GSlot>> {
        h.iter().filter(|(_, v)| !v.is_empty()).map(|(k, v)| (k.clone(), v.iter().map(from_slot_range).collect())).collect()
    };
    RefMeta {
        epoch: m.get_epoch(),
        force: m.get_flags().force,
        compress: m.get_flags().compress,
        name: m.get_cluster_name().to_string(),
        local: mk(m.get_local()),
        peer: mk(m.get_peer()),
        config: from_config(m.get_config()),
    }
}

pub fn to_resp(prefix: &[&str], tokens: &[Vec<u8>]) -> RespVec {
    let mut v: Vec<RespVec> = prefix.iter().map(|s| Resp::Bulk(BulkStr::Str(s.as_bytes().to_vec()))).collect();
    v.extend(tokens.iter().map(|t| Resp::Bulk(BulkStr::Str(t.clone()))));
    Resp::Arr(Array::Arr(v))
}

fn bytes(args: &[String]) -> Vec<Vec<u8>> {
    args.iter().map(|s| s.clone().into_bytes()).collect()
}

// ---------------------------------------------------------------------------
// reference decoder for the plain SETCLUSTER token list, written from docs/meta_command.md
// ---------------------------------------------------------------------------

#[derive(Debug, Clone, PartialEq, Eq)]
pub enum RefRes {
    Ok(RefMeta),
    /// well-formed up to an invalid CONFIG section
    ConfigError,
    Reject,
    /// the documentation makes no claim (leading '+', repeated sections, odd ranges ...)
    Unspecified,
}

struct Toks<'a> {
    t: &'a [Option<String>],
    i: usize,
}

impl<'a> Toks<'a> {
    fn peek(&self) -> Option<&'a Option<String>> {
        self.t.get(self.i)
    }
    fn next(&mut self) -> Option<&'a Option<String>> {
        let r = self.t.get(self.i);
        self.i += 1;
        r
    }
}

enum P<T> {
    Ok(T),
    Reject,
    Unspec,
}

macro_rules! tok {
    ($e:expr) => {
        match $e {
            Some(Some(s)) => s,
            Some(None) => return P::Reject, // a token that is not UTF-8
            None => return P::Reject,
        }
    };
}

fn num_u64(s: &str) -> P<u64> {
    if s.starts_with('+') {
        return P::Unspec;
    }
    match s.parse::<u64>() {
        Ok(n) => P::Ok(n),
        Err(_) => P::Reject,
    }
}

fn is_kw(s: &str) -> bool {
    let u = s.to_uppercase();
    u == "PEER" || u == "CONFIG"
}

fn ref_slot_range(t: &mut Toks) -> P<GSlot> {
    let first = tok!(t.peek());
    let up = first.to_uppercase();
    let tag = if up == "MIGRATING" {
        t.next();
        1u8
    } else if up == "IMPORTING" {
        t.next();
        2u8
    } else {
        0u8
    };
    let n = match num_u64(tok!(t.next())) {
        P::Ok(n) => n,
        P::Reject => return P::Reject,
        P::Unspec => return P::Unspec,
    };
    if n > 100000 {
        return P::Unspec;
    }
    let mut ranges: Vec<(usize, usize)> = vec![];
    for _ in 0..n {
        let r = tok!(t.next());
        let parts: Vec<&str> = r.split('-').collect();
        if parts.len() < 2 {
            return P::Reject;
        }
        if parts.len() > 2 {
            return P::Unspec;
        }
        let (a, b) = match (num_u64(parts[0]), num_u64(parts[1])) {
            (P::Ok(a), P::Ok(b)) => (a as usize, b as usize),
            (P::Unspec, _) | (_, P::Unspec) => return P::Unspec,
            _ => return P::Reject,
        };
        ranges.push((a, b));
    }
    // the documentation shows canonical range lists only
    if n == 0 {
        return P::Unspec;
    }
    for (i, (a, b)) in ranges.iter().enumerate() {
        if a > b {
            return P::Unspec;
        }
        if i > 0 && ranges[i - 1].1 + 1 >= *a {
            return P::Unspec;
        }
    }
    let meta = if tag != 0 {
        let epoch = match num_u64(tok!(t.next())) {
            P::Ok(n) => n,
            P::Reject => return P::Reject,
            P::Unspec => return P::Unspec,
        };
        GMeta { epoch, sp: tok!(t.next()).clone(), sn: tok!(t.next()).clone(), dp: tok!(t.next()).clone(), dn: tok!(t.next()).clone() }
    } else {
        GMeta { epoch: 0, sp: String::new(), sn: String::new(), dp: String::new(), dn: String::new() }
    };
    P::Ok(GSlot { ranges, tag, meta })
}

fn ref_node_map(t: &mut Toks) -> P<BTreeMap<String, Vec<GSlot>>> {
    let mut m: BTreeMap<String, Vec<GSlot>> = BTreeMap::new();
    loop {
        match t.peek() {
            None => break,
            Some(None) => return P::Reject,
            Some(Some(s)) if is_kw(s) => break,
            _ => {}
        }
        let a = tok!(t.next()).clone();
        match ref_slot_range(t) {
            P::Ok(s) => m.entry(a).or_default().push(s),
            P::Reject => return P::Reject,
            P::Unspec => return P::Unspec,
        }
    }
    P::Ok(m)
}

enum Cfg {
    Ok(GConfig),
    Error,
    Unspec,
}

fn ref_config(t: &mut Toks) -> Cfg {
    let mut c = GConfig { strategy: 0, max_migration_time: 3 * 60 * 60, max_blocking_time: 10_000, scan_interval: 500, scan_count: 16 };
    loop {
        match t.peek() {
            None => break,
            Some(None) => return Cfg::Error,
            Some(Some(s)) if is_kw(s) => break,
            _ => {}
        }
        let (Some(Some(f)), Some(Some(v))) = (t.next(), t.next()) else { return Cfg::Error };
        let f = f.to_lowercase();
        let num = |v: &str| -> Result<u64, bool> {
            if v.starts_with('+') {
                return Err(true);
            }
            v.parse::<u64>().map_err(|_| false)
        };
        match f.as_str() {
            "compression_strategy" => match v.to_lowercase().as_str() {
                "disabled" => c.strategy = 0,
                "set_get_only" => c.strategy = 1,
                "allow_all" => c.strategy = 2,
                _ => return Cfg::Error,
            },
            "migration_max_migration_time" | "migration_max_blocking_time" | "migration_scan_interval" | "migration_scan_count" => match num(v) {
                Ok(n) => match f.as_str() {
                    "migration_max_migration_time" => c.max_migration_time = n,
                    "migration_max_blocking_time" => c.max_blocking_time = n,
                    "migration_scan_interval" => c.scan_interval = n,
                    _ => {
                        if n == 0 {
                            return Cfg::Error;
                        }
                        c.scan_count = n
                    }
                },
                Err(true) => return Cfg::Unspec,
                Err(false) => return Cfg::Error,
            },
            _ => return Cfg::Error,
        }
    }
    Cfg::Ok(c)
}

/// tokens AFTER "UMCTL SETCLUSTER"; None = a token that is not UTF-8
pub fn ref_setcluster(tokens: &[Option<String>]) -> RefRes {
    let mut t = Toks { t: tokens, i: 0 };
    macro_rules! get {
        () => {
            match t.next() {
                Some(Some(s)) => s,
                _ => return RefRes::Reject,
            }
        };
    }
    if get!() != "v2" {
        return RefRes::Reject;
    }
    let epoch = match num_u64(get!()) {
        P::Ok(n) => n,
        P::Reject => return RefRes::Reject,
        P::Unspec => return RefRes::Unspecified,
    };
    let flags = get!();
    let has = |f: &str| flags.split(',').any(|x| x.eq_ignore_ascii_case(f));
    let (force, compress) = (has("FORCE"), has("COMPRESS"));
    if compress {
        return RefRes::Unspecified; // the blob is checked separately
    }
    if !flags.split(',').all(|x| x.eq_ignore_ascii_case("FORCE") || x.eq_ignore_ascii_case("NOFLAG")) {
        // the documentation names NOFLAG, FORCE and COMPRESS only
        return RefRes::Unspecified;
    }
    let name = get!().clone();
    if name.len() > 31 || !name.chars().all(|c| c.is_ascii_alphanumeric() || c == '@' || c == '-' || c == '_') {
        return RefRes::Reject;
    }
    let local = match ref_node_map(&mut t) {
        P::Ok(m) => m,
        P::Reject => return RefRes::Reject,
        P::Unspec => return RefRes::Unspecified,
    };
    let mut peer = BTreeMap::new();
    let mut config = GConfig { strategy: 0, max_migration_time: 3 * 60 * 60, max_blocking_time: 10_000, scan_interval: 500, scan_count: 16 };
    let (mut seen_peer, mut seen_config) = (false, false);
    let mut config_error = false;
    while let Some(tok) = t.next() {
        let Some(tok) = tok else { return RefRes::Reject };
        match tok.to_uppercase().as_str() {
            "PEER" => {
                if seen_peer {
                    return RefRes::Unspecified;
                }
                seen_peer = true;
                match ref_node_map(&mut t) {
                    P::Ok(m) => peer = m,
                    P::Reject => return RefRes::Reject,
                    P::Unspec => return RefRes::Unspecified,
                }
            }
            "CONFIG" => {
                if seen_config {
                    return RefRes::Unspecified;
                }
                seen_config = true;
                match ref_config(&mut t) {
                    Cfg::Ok(c) => config = c,
                    Cfg::Error => {
                        config_error = true;
                        break;
                    }
                    Cfg::Unspec => return RefRes::Unspecified,
                }
            }
            _ => return RefRes::Reject,
        }
    }
    if config_error {
        return RefRes::ConfigError;
    }
    RefRes::Ok(RefMeta { epoch, force, compress, name, local, peer, config })
}

// ---------------------------------------------------------------------------
// checks
// ---------------------------------------------------------------------------

const CORRUPTIONS: [&[u8]; 11] = [b"", b"xyz", b"0", b"-1", b"99999999999999999999999", b"1-", b"5-3", b"PEER", b"CONFIG", b"migrating", b"\xff\xfe"];

fn as_tokens(v: &[Vec<u8>]) -> Vec<Option<String>> {
    v.iter().map(|b| String::from_utf8(b.clone()).ok()).collect()
}

fn check_against_reference(what: &str, tokens: &[Vec<u8>], obs: &mut Obs) -> Result<(), Fail> {
    let real = ProxyClusterMeta::from_resp(&to_resp(&["UMCTL", "SETCLUSTER"], tokens));
    let reference = ref_setcluster(&as_tokens(tokens));
    let shown = || tokens.iter().map(|t| String::from_utf8_lossy(t).to_string()).collect::<Vec<_>>().join(" ");
    let has_non_utf8 = tokens.iter().any(|t| std::str::from_utf8(t).is_err());
    match (&real, &reference) {
        (_, RefRes::Unspecified) => obs.class_n("mutant:unspecified"),
        (Ok((m, Ok(()))), RefRes::Ok(want)) => {
            obs.class_n("mutant:another-valid-encoding(agree)");
            ensure!(
                observed(m) == *want,
                "C17:decodes-differently-from-documentation",
                "{}: token list [{}] decodes to {:?}; read by the documented grammar it is {:?}",
                what,
                shown(),
                observed(m),
                want
            );
        }
        (Err(_), RefRes::Ok(_)) => obs.class_n("mutant:real-stricter-than-reference"),
        (Err(_), RefRes::Reject) | (Err(_), RefRes::ConfigError) => obs.class_n("mutant:rejected(agree)"),
        (Ok((_, Err(_))), RefRes::ConfigError) => {
            obs.class_n("mutant:config-error-ignored");
            tolerate_known(
                obs,
                Fail::new(
                    "C17:invalid-config-ignored",
                    format!(
                        "{}: token list [{}] has an invalid/truncated CONFIG section; it is not rejected but installed with the DEFAULT config (reply 'WARNING: ignored invalid config')",
                        what,
                        shown()
                    ),
                ),
            )?;
        }
        (Ok((m, ext)), RefRes::Reject) | (Ok((m, ext)), RefRes::ConfigError) => {
            if has_non_utf8 {
                tolerate_known(
                    obs,
                    Fail::new(
                        "C17:non-utf8-token-dropped",
                        format!("{}: token list [{}] contains a token that is not UTF-8; it is silently dropped and the rest decodes to {:?}", what, shown(), observed(m)),
                    ),
                )?;
            } else {
                fail!(
                    "C17:accepts-corrupted-encoding",
                    "{}: token list [{}] is not a well-formed SETCLUSTER argument list but decodes to {:?} (extended result ok={})",
                    what,
                    shown(),
                    observed(m),
                    ext.is_ok()
                );
            }
        }
        (Ok((m, Err(_))), RefRes::Ok(want)) => fail!(
            "C17:decodes-differently-from-documentation",
            "{}: token list [{}]: config reported invalid although well-formed; got {:?} want {:?}",
            what,
            shown(),
            observed(m),
            want
        ),
    }
    Ok(())
}

pub fn check_msg(msg: &GMsg, obs: &mut Obs) -> Result<(), Fail> {
    let has_tag = msg.local.iter().chain(msg.peer.iter()).any(|n| n.iter().any(|s| s.tag != 0));
    let multi = msg.local.iter().chain(msg.peer.iter()).any(|n| n.len() >= 2);
    let nondefault = msg.config != GConfig { strategy: 0, max_migration_time: 10800, max_blocking_time: 10000, scan_interval: 500, scan_count: 16 };
    if has_tag || multi || nondefault {
        obs.nontrivial = true;
    }
    if has_tag {
        obs.class("msg:migration-tag");
    }
    if multi {
        obs.class("msg:>=2-ranges-on-a-node");
    }
    if nondefault {
        obs.class("msg:non-default-config");
    }
    if msg.name.is_empty() {
        obs.class("msg:free-proxy(empty-cluster-name)");
    }
    // 1. plain round trip
    let plain = build(msg, false);
    let args = plain.to_args();
    let tokens = bytes(&args);
    let want = expected(msg, false);
    match ProxyClusterMeta::from_resp(&to_resp(&["UMCTL", "SETCLUSTER"], &tokens)) {
        Ok((m, Ok(()))) => ensure!(
            observed(&m) == want,
            "C17:plain-roundtrip",
            "plain encoding [{}] decodes to {:?}, the message was {:?}",
            args.join(" "),
            observed(&m),
            want
        ),
        Ok((_, Err(_))) => fail!("C17:plain-roundtrip", "own plain encoding [{}] reports an invalid config", args.join(" ")),
        Err(e) => fail!("C17:plain-roundtrip", "own plain encoding [{}] is rejected: {:?}", args.join(" "), e),
    }
    // the encoder against the independent reference decoder
    match ref_setcluster(&as_tokens(&tokens)) {
        RefRes::Ok(r) => ensure!(
            r == want,
            "C17:encoding-differs-from-documentation",
            "plain encoding [{}] read by the documented grammar is {:?}, the message was {:?}",
            args.join(" "),
            r,
            want
        ),
        RefRes::Unspecified => obs.class("encoding:unspecified-by-reference"),
        other => fail!("C17:encoding-differs-from-documentation", "plain encoding [{}] is not accepted by the documented grammar: {:?}", args.join(" "), other),
    }
    // 2. compressed round trip and plain == compressed
    let comp = build(msg, true);
    let cargs = comp.to_compressed_args().map_err(|e| Fail::new("C17:compress-error", format!("{:?}", e)))?;
    let want_c = expected(msg, true);
    match ProxyClusterMeta::from_resp(&to_resp(&["UMCTL", "SETCLUSTER"], &bytes(&cargs))) {
        Ok((m, Ok(()))) => ensure!(
            observed(&m) == want_c,
            "C17:compressed-roundtrip",
            "compressed encoding decodes to {:?}, the message was {:?}",
            observed(&m),
            want_c
        ),
        Ok((_, Err(_))) => fail!("C17:compressed-roundtrip", "own compressed encoding reports an invalid config"),
        Err(e) => fail!("C17:compressed-roundtrip", "own compressed encoding is rejected: {:?}", e),
    }
    // 3. rejection clause, plain form: every proper prefix, every single deletion, corruptions
    for k in 0..tokens.len() {
        check_against_reference("token prefix", &tokens[..k], obs)?;
        let mut d = tokens.clone();
        d.remove(k);
        check_against_reference("single-token deletion", &d, obs)?;
        for c in CORRUPTIONS.iter() {
            if tokens[k] == *c {
                continue;
            }
            let mut m = tokens.clone();
            m[k] = c.to_vec();
            check_against_reference("single-token corruption", &m, obs)?;
        }
    }
    // 4. rejection clause, compressed blob: truncations and byte flips
    let blob = cargs[3].as_bytes().to_vec();
    let mut variants: Vec<Vec<u8>> = vec![];
    for cut in [0usize, 1, blob.len() / 2, blob.len().saturating_sub(1), blob.len().saturating_sub(4)] {
        variants.push(blob[..cut.min(blob.len())].to_vec());
    }
    for i in (0..blob.len()).step_by((blob.len() / 24).max(1)) {
        let mut b = blob.clone();
        b[i] = if b[i] == b'A' { b'B' } else { b'A' };
        variants.push(b);
    }
    for v in variants {
        if v == blob {
            continue;
        }
        let mut t = bytes(&cargs);
        t[3] = v;
        match ProxyClusterMeta::from_resp(&to_resp(&["UMCTL", "SETCLUSTER"], &t)) {
            Err(_) => obs.class_n("blob-mutant:rejected"),
            Ok((m, _)) => {
                obs.class_n("blob-mutant:still-decodes");
                ensure!(
                    observed(&m) == want_c,
                    "C17:corrupted-blob-decodes-differently",
                    "a corrupted/truncated compressed blob decodes to different metadata {:?} (original {:?})",
                    observed(&m),
                    want_c
                );
            }
        }
    }
    Ok(())
}

// --- replication metadata --------------------------------------------------

#[derive(Debug, Clone, Serialize, Deserialize)]
pub struct GRepl {
    pub epoch: u64,
    pub force: bool,
    /// (is_master, cluster name, node index, peers as (node index, proxy index))
    pub records: Vec<(bool, String, u8, Vec<(u8, u8)>)>,
}

pub fn repl_strategy() -> impl Strategy<Value = GRepl> {
    (
        epoch_strategy(),
        any::<bool>(),
        prop::collection::vec(
            (any::<bool>(), prop_oneof![1 => Just(String::new()), 4 => "[a-z0-9@_-]{1,31}"], 0u8..20, prop::collection::vec((0u8..20, 0u8..20), 0..4)),
            0..8,
        ),
    )
        .prop_map(|(epoch, force, records)| GRepl { epoch, force, records })
}

type ReplValue = (u64, bool, Vec<(String, String, Vec<(String, String)>)>, Vec<(String, String, Vec<(String, String)>)>);

fn repl_value(m: &ReplicatorMeta) -> ReplValue {
    let peers = |p: &Vec<ReplPeer>| p.iter().map(|x| (x.node_address.clone(), x.proxy_address.clone())).collect::<Vec<_>>();
    (
        m.epoch,
        m.flags.force,
        m.masters.iter().map(|x| (x.cluster_name.to_string(), x.master_node_address.clone(), peers(&x.replicas))).collect(),
        m.replicas.iter().map(|x| (x.cluster_name.to_string(), x.replica_node_address.clone(), peers(&x.masters))).collect(),
    )
}

/// reference decoder for SETREPL written from docs/meta_command.md
fn ref_setrepl(tokens: &[Option<String>]) -> Option<Option<ReplValue>> {
    // outer None = unspecified, inner None = reject
    let mut i = 0;
    macro_rules! get {
        () => {{
            let t = tokens.get(i);
            i += 1;
            match t {
                Some(Some(s)) => s,
                _ => return Some(None),
            }
        }};
    }
    let e = get!();
    if e.starts_with('+') {
        return None;
    }
    let Ok(epoch) = e.parse::<u64>() else { return Some(None) };
    let flags = get!();
    let force = flags.split(',').any(|x| x.eq_ignore_ascii_case("FORCE"));
    let (mut masters, mut replicas) = (vec![], vec![]);
    while i < tokens.len() {
        let role = get!().to_uppercase();
        let name = get!().clone();
        if name.len() > 31 || !name.chars().all(|c| c.is_ascii_alphanumeric() || c == '@' || c == '-' || c == '_') {
            return Some(None);
        }
        let node = get!().clone();
        let n = get!();
        if n.starts_with('+') {
            return None;
        }
        let Ok(n) = n.parse::<usize>() else { return Some(None) };
        if n > 100000 {
            return None;
        }
        let mut peers = vec![];
        for _ in 0..n {
            let a = get!().clone();
            let b = get!().clone();
            peers.push((a, b));
        }
        match role.as_str() {
            "MASTER" => masters.push((name, node, peers)),
            "REPLICA" => replicas.push((name, node, peers)),
            _ => return Some(None),
        }
    }
    Some(Some((epoch, force, masters, replicas)))
}

/// the rejection clause for one SETREPL token list: real parser against the documented grammar
fn check_repl_tokens(what: &str, m: &[Vec<u8>], obs: &mut Obs) -> Result<(), Fail> {
    let real = ReplicatorMeta::from_resp(&to_resp(&["UMCTL", "SETREPL"], m));
    let reference = ref_setrepl(&as_tokens(m));
    let shown = m.iter().map(|t| String::from_utf8_lossy(t).to_string()).collect::<Vec<_>>().join(" ");
    match (real, reference) {
        (_, None) => obs.class_n("repl-mutant:unspecified"),
        (Err(_), _) => obs.class_n("repl-mutant:rejected"),
        (Ok(r), Some(Some(w))) => {
            obs.class_n("repl-mutant:another-valid-encoding(agree)");
            ensure!(repl_value(&r) == w, "C17:decodes-differently-from-documentation", "{}: SETREPL [{}] decodes to {:?}, documented grammar gives {:?}", what, shown, repl_value(&r), w);
        }
        (Ok(r), Some(None)) => {
            if m.iter().any(|t| std::str::from_utf8(t).is_err()) {
                tolerate_known(
                    obs,
                    Fail::new("C17:non-utf8-token-dropped", format!("{}: SETREPL [{}] contains a token that is not UTF-8; it is silently dropped and the rest decodes to {:?}", what, shown, repl_value(&r))),
                )?;
            } else {
                fail!("C17:accepts-corrupted-encoding", "{}: SETREPL [{}] is not well-formed but decodes to {:?}", what, shown, repl_value(&r));
            }
        }
    }
    Ok(())
}

/// an arbitrary token list (the libFuzzer target's case type; also replayable)
#[derive(Debug, Clone, Serialize, Deserialize)]
pub struct TokCase {
    pub repl: bool,
    pub tokens: Vec<Vec<u8>>,
}

pub fn check_tokens(c: &TokCase, obs: &mut Obs) -> Result<(), Fail> {
    if c.repl {
        check_repl_tokens("token list", &c.tokens, obs)?;
        if ReplicatorMeta::from_resp(&to_resp(&["UMCTL", "SETREPL"], &c.tokens)).is_ok() && c.tokens.len() > 2 {
            obs.nontrivial = true;
        }
    } else {
        check_against_reference("token list", &c.tokens, obs)?;
        if ProxyClusterMeta::from_resp(&to_resp(&["UMCTL", "SETCLUSTER"], &c.tokens)).is_ok() && c.tokens.len() > 4 {
            obs.nontrivial = true;
        }
    }
    Ok(())
}

pub fn check_repl(g: &GRepl, obs: &mut Obs) -> Result<(), Fail> {
    let mut masters = vec![];
    let mut replicas = vec![];
    for (is_master, name, node, peers) in &g.records {
        let cn = ClusterName::try_from(name.as_str()).expect("name");
        let ps: Vec<ReplPeer> = peers
            .iter()
            .map(|(n, p)| ReplPeer { node_address: addr("node", *n as usize), proxy_address: addr("proxy", *p as usize) })
            .collect();
        if *is_master {
            masters.push(MasterMeta { cluster_name: cn, master_node_address: addr("node", *node as usize), replicas: ps });
        } else {
            replicas.push(ReplicaMeta { cluster_name: cn, replica_node_address: addr("node", *node as usize), masters: ps });
        }
    }
    let meta = ReplicatorMeta { epoch: g.epoch, flags: ClusterMapFlags { force: g.force, compress: false }, masters, replicas };
    let want = repl_value(&meta);
    if g.records.iter().any(|r| r.3.len() >= 2) || g.records.len() >= 3 {
        obs.nontrivial = true;
    }
    let args = encode_repl_meta(meta);
    let tokens = bytes(&args);
    match ReplicatorMeta::from_resp(&to_resp(&["UMCTL", "SETREPL"], &tokens)) {
        Ok(m) => ensure!(repl_value(&m) == want, "C17:repl-roundtrip", "SETREPL [{}] decodes to {:?}, message was {:?}", args.join(" "), repl_value(&m), want),
        Err(e) => fail!("C17:repl-roundtrip", "own SETREPL encoding [{}] rejected: {:?}", args.join(" "), e),
    }
    match ref_setrepl(&as_tokens(&tokens)) {
        Some(Some(r)) => ensure!(r == want, "C17:encoding-differs-from-documentation", "SETREPL [{}] read by the documented grammar is {:?}, message was {:?}", args.join(" "), r, want),
        Some(None) => fail!("C17:encoding-differs-from-documentation", "SETREPL [{}] is not accepted by the documented grammar", args.join(" ")),
        None => {}
    }
    // rejection clause
    let mut mutants: Vec<(&str, Vec<Vec<u8>>)> = vec![];
    for k in 0..tokens.len() {
        mutants.push(("token prefix", tokens[..k].to_vec()));
        let mut d = tokens.clone();
        d.remove(k);
        mutants.push(("single-token deletion", d));
        for c in [&b""[..], b"xyz", b"0", b"-1", b"7", b"master", b"\xff\xfe"] {
            if tokens[k] == c {
                continue;
            }
            let mut m = tokens.clone();
            m[k] = c.to_vec();
            mutants.push(("single-token corruption", m));
        }
    }
    for (what, m) in mutants {
        check_repl_tokens(what, &m, obs)?;
    }
    Ok(())
}

// --- migration task descriptors --------------------------------------------

#[derive(Debug, Clone, Serialize, Deserialize)]
pub struct GTask {
    pub name: String,
    pub slot: GSlot,
    pub version: String,
}

pub fn task_strategy() -> impl Strategy<Value = GTask> {
    ("[a-zA-Z0-9@_-]{1,31}", slot_strategy(), "[a-z0-9.]{1,6}").prop_map(|(name, slot, version)| GTask { name, slot, version })
}

pub fn check_task(g: &GTask, obs: &mut Obs) -> Result<(), Fail> {
    let meta = MigrationTaskMeta { cluster_name: ClusterName::try_from(g.name.as_str()).expect("name"), slot_range: to_slot_range(&g.slot) };
    if g.slot.tag != 0 {
        obs.nontrivial = true;
    }
    let strs = meta.clone().into_strings();
    let back = MigrationTaskMeta::from_strings(&mut strs.clone().into_iter().peekable());
    ensure!(back.as_ref() == Some(&meta), "C17:task-roundtrip", "task [{}] decodes to {:?}, was {:?}", strs.join(" "), back, meta);
    // the INFOMGR form: joined by spaces, split by the coordinator
    let joined = strs.join(" ");
    let parts: Vec<String> = joined.split(' ').map(|s| s.to_string()).collect();
    let back2 = MigrationTaskMeta::from_strings(&mut parts.into_iter().peekable());
    ensure!(back2.as_ref() == Some(&meta), "C17:task-roundtrip", "task string '{}' decodes to {:?}", joined, back2);
    // switch argument (PRECHECK/PRESWITCH/FINALSWITCH)
    let sw = SwitchArg { version: g.version.clone(), meta: meta.clone() };
    let s = sw.clone().into_strings();
    let mut cmd = vec![b"UMCTL".to_vec(), b"PRESWITCH".to_vec()];
    cmd.extend(s.iter().map(|x| x.clone().into_bytes()));
    let resp: RespVec = Resp::Arr(Array::Arr(cmd.iter().map(|b| Resp::Bulk(BulkStr::Str(b.clone()))).collect()));
    let slice = resp.as_ref().map(|a| a.as_slice());
    use undermoon::protocol::Functor;
    let parsed = undermoon::migration::task::parse_switch_command(&slice);
    match parsed {
        Some(p) => ensure!(p.version == g.version && p.meta == meta, "C17:switch-roundtrip", "switch arg [{}] decodes to {:?}", s.join(" "), p),
        None => fail!("C17:switch-roundtrip", "own switch arg encoding [{}] rejected", s.join(" ")),
    }
    // truncations / deletions must not yield a different task
    for k in 0..strs.len() {
        for mutant in [strs[..k].to_vec(), {
            let mut d = strs.clone();
            d.remove(k);
            d
        }] {
            if let Some(t) = MigrationTaskMeta::from_strings(&mut mutant.clone().into_iter().peekable()) {
                // acceptable only if the mutant is itself a complete well-formed task (count fields re-interpreted)
                let re = t.clone().into_strings();
                ensure!(
                    re == mutant || (re.len() <= mutant.len() && re[..] == mutant[..re.len()]),
                    "C17:task-truncation-accepted",
                    "truncated/short task [{}] decodes to {:?} which does not re-encode to the same tokens",
                    mutant.join(" "),
                    t
                );
                obs.class_n("task-mutant:another-valid-encoding");
            } else {
                obs.class_n("task-mutant:rejected");
            }
        }
    }
    Ok(())
}

// --- broker-produced metadata through the real coordinator sender ------------

mod capture {
    use futures::Future;
    use std::pin::Pin;
    use std::sync::{Arc, Mutex};
    use undermoon::protocol::{BinSafeStr, OptionalMulti, RedisClient, RedisClientError, RedisClientFactory, Resp, RespVec};

    #[derive(Clone, Default)]
    pub struct Captured(pub Arc<Mutex<Vec<(String, Vec<BinSafeStr>)>>>);

    pub struct CapClient {
        addr: String,
        log: Captured,
        reply: Arc<dyn Fn(&str, &[BinSafeStr]) -> RespVec + Send + Sync>,
    }

    impl RedisClient for CapClient {
        fn execute<'s>(
            &'s mut self,
            command: OptionalMulti<Vec<BinSafeStr>>,
        ) -> Pin<Box<dyn Future<Output = Result<OptionalMulti<RespVec>, RedisClientError>> + Send + 's>> {
            let r = match command {
                OptionalMulti::Single(c) => {
                    self.log.0.lock().unwrap().push((self.addr.clone(), c.clone()));
                    OptionalMulti::Single((self.reply)(&self.addr, &c))
                }
                OptionalMulti::Multi(cs) => OptionalMulti::Multi(
                    cs.into_iter()
                        .map(|c| {
                            self.log.0.lock().unwrap().push((self.addr.clone(), c.clone()));
                            (self.reply)(&self.addr, &c)
                        })
                        .collect(),
                ),
            };
            Box::pin(async move { Ok(r) })
        }
    }

    pub struct CapFactory {
        pub log: Captured,
        pub reply: Arc<dyn Fn(&str, &[BinSafeStr]) -> RespVec + Send + Sync>,
    }

    impl CapFactory {
        pub fn ok() -> Self {
            CapFactory { log: Captured::default(), reply: Arc::new(|_, _| Resp::Simple(b"OK".to_vec())) }
        }
    }

    impl RedisClientFactory for CapFactory {
        type Client = CapClient;
        fn create_client<'s>(&'s self, address: String) -> Pin<Box<dyn Future<Output = Result<CapClient, RedisClientError>> + Send + 's>> {
            let c = CapClient { addr: address, log: self.log.clone(), reply: self.reply.clone() };
            Box::pin(async move { Ok(c) })
        }
    }
}
pub use capture::{CapFactory, Captured};

#[derive(Debug, Clone, Serialize, Deserialize)]
pub struct BCase {
    pub base: brokersim::Case,
    pub compress: bool,
}

pub fn broker_strategy() -> impl Strategy<Value = BCase> {
    (brokersim::case_strategy(10), any::<bool>()).prop_map(|(base, compress)| BCase { base, compress })
}

fn gslot_of(v: &VSlotRange) -> GSlot {
    let (tag, meta) = match &v.tag {
        VTag::None => (0u8, None),
        VTag::Migrating(m) => (1, Some(m)),
        VTag::Importing(m) => (2, Some(m)),
    };
    GSlot {
        ranges: v.range_list.clone(),
        tag,
        meta: match meta {
            Some(m) => GMeta { epoch: m.epoch, sp: m.src_proxy_address.clone(), sn: m.src_node_address.clone(), dp: m.dst_proxy_address.clone(), dn: m.dst_node_address.clone() },
            None => GMeta { epoch: 0, sp: String::new(), sn: String::new(), dp: String::new(), dn: String::new() },
        },
    }
}

/// what the proxy must end up with for this served view (computed from the JSON view only)
fn expected_from_view(p: &VProxy, compress: bool) -> RefMeta {
    let mut local = BTreeMap::new();
    if p.cluster_name.is_some() {
        for n in &p.nodes {
            if n.is_master() && !n.slots.is_empty() {
                local.insert(n.address.clone(), n.slots.iter().map(gslot_of).collect());
            }
        }
    }
    let mut peer = BTreeMap::new();
    for q in &p.peers {
        if !q.slots.is_empty() {
            peer.insert(q.proxy_address.clone(), q.slots.iter().map(gslot_of).collect::<Vec<_>>());
        }
    }
    let cfg: ClusterConfig = p.cluster_config.clone().map(|v| serde_json::from_value(v).expect("config")).unwrap_or_default();
    RefMeta { epoch: p.epoch, force: false, compress, name: p.cluster_name.clone().unwrap_or_default(), local, peer, config: from_config(&cfg) }
}

pub fn check_broker(case: &BCase, obs: &mut Obs) -> Result<(), Fail> {
    use undermoon::coordinator::verif_export::{MigrationStateChecker, MigrationStateRespChecker, ProxyMetaRespSender, ProxyMetaSender};
    let mut sim = Sim::new(&case.base.cfg);
    let mut pre = sim.views();
    for op in &case.base.ops {
        let rop = sim.resolve(op, &pre);
        let _ = sim.apply(&rop);
        pre = sim.views();
    }
    let v = pre;
    let factory = std::sync::Arc::new(CapFactory::ok());
    let sender = ProxyMetaRespSender::new(factory.clone(), case.compress);
    let rt = brokersim::new_runtime();
    for (a, view) in &v.proxies {
        // the typed value the coordinator would have fetched from the broker
        let proxy = sim.rt.block_on(sim.svc.get_proxy_by_address(a)).expect("get").expect("proxy");
        factory.log.0.lock().unwrap().clear();
        rt.block_on(sender.send_meta(proxy)).map_err(|e| Fail::new("C17:sender-error", format!("{:?}", e)))?;
        let sent = factory.log.0.lock().unwrap().clone();
        ensure!(sent.len() == 2, "C17:sender-commands", "coordinator sent {} commands to {}", sent.len(), a);
        ensure!(sent.iter().all(|(to, _)| to == a), "C17:sender-address", "metadata of {} sent to {:?}", a, sent.iter().map(|x| &x.0).collect::<Vec<_>>());
        let (repl_cmd, cluster_cmd) = (&sent[0].1, &sent[1].1);
        ensure!(repl_cmd[1] == b"SETREPL" && cluster_cmd[1] == b"SETCLUSTER", "C17:sender-order", "expected SETREPL then SETCLUSTER");
        // SETCLUSTER through the real parser
        let resp: RespVec = Resp::Arr(Array::Arr(cluster_cmd.iter().map(|b| Resp::Bulk(BulkStr::Str(b.clone()))).collect()));
        let want = expected_from_view(view, case.compress);
        let parsed = match ProxyClusterMeta::from_resp(&resp) {
            Ok((m, Ok(()))) => m,
            other => fail!("C17:broker-meta-rejected", "SETCLUSTER generated for {} is not accepted by the proxy parser: {:?}", a, other.map(|x| x.1)),
        };
        ensure!(
            observed(&parsed) == want,
            "C17:broker-meta-differs",
            "SETCLUSTER generated for {} decodes to {:?}; the broker's view denotes {:?}",
            a,
            observed(&parsed),
            want
        );
        if !want.local.is_empty() {
            obs.class("broker-view:in-cluster");
        }
        if want.local.values().chain(want.peer.values()).any(|s| s.iter().any(|x| x.tag != 0)) {
            obs.nontrivial = true;
            obs.class("broker-view:with-migration");
        }
        // SETREPL through the real parser
        let resp: RespVec = Resp::Arr(Array::Arr(repl_cmd.iter().map(|b| Resp::Bulk(BulkStr::Str(b.clone()))).collect()));
        let repl = ReplicatorMeta::from_resp(&resp).map_err(|e| Fail::new("C17:broker-repl-rejected", format!("SETREPL for {} rejected: {:?}", a, e)))?;
        ensure!(repl.epoch == view.epoch, "C17:broker-repl-differs", "SETREPL epoch {} != view epoch {}", repl.epoch, view.epoch);
        let mut want_m = vec![];
        let mut want_r = vec![];
        for n in &view.nodes {
            let peers: Vec<(String, String)> = n.repl.peers.iter().map(|p| (p.node_address.clone(), p.proxy_address.clone())).collect();
            let name = view.cluster_name.clone().unwrap_or_default();
            if view.cluster_name.is_none() || n.is_master() {
                want_m.push((name, n.address.clone(), peers));
            } else {
                want_r.push((name, n.address.clone(), peers));
            }
        }
        let got = repl_value(&repl);
        ensure!(
            got.2 == want_m && got.3 == want_r,
            "C17:broker-repl-differs",
            "SETREPL for {} decodes to masters {:?} replicas {:?}; the view says masters {:?} replicas {:?}",
            a,
            got.2,
            got.3,
            want_m,
            want_r
        );
        // the INFOMGR journey: every migration the proxy holds, reported as finished
        for (node, slots) in parsed.get_local() {
            for sr in slots {
                if matches!(sr.tag, SlotRangeTag::None) {
                    continue;
                }
                let task = MigrationTaskMeta { cluster_name: parsed.get_cluster_name().clone(), slot_range: sr.clone() };
                let line = task.clone().into_strings().join(" ");
                let reply_line = line.clone();
                let f2 = std::sync::Arc::new(CapFactory {
                    log: Captured::default(),
                    reply: std::sync::Arc::new(move |_, _| Resp::Arr(Array::Arr(vec![Resp::Bulk(BulkStr::Str(reply_line.clone().into_bytes()))]))),
                });
                let checker = MigrationStateRespChecker::new(f2);
                use futures::StreamExt;
                let got: Vec<_> = rt.block_on(checker.check(a.clone()).collect::<Vec<_>>());
                ensure!(got.len() == 1, "C17:infomgr-parse", "coordinator parsed {} tasks from INFOMGR line '{}'", got.len(), line);
                let reported = match &got[0] {
                    Ok(t) => t.clone(),
                    Err(e) => fail!("C17:infomgr-parse", "coordinator cannot parse INFOMGR line '{}' reported by {} for node {}: {:?}", line, a, node, e),
                };
                ensure!(reported == task, "C17:infomgr-parse", "INFOMGR line '{}' parsed to {:?}", line, reported);
                // commit on a copy of the broker that issued it: accepted once, refused twice
                let snap = sim.snapshot_json();
                let copy = brokersim::new_service(&case.base.cfg, Some(snap)).map_err(|e| Fail::new("harness:copy", e))?;
                let r1 = rt.block_on(copy.commit_migration(reported.clone()));
                ensure!(
                    r1.is_ok(),
                    "C17:reported-task-not-accepted",
                    "the task '{}' reported by {} (tag {}) is refused by the broker that issued it: {:?}",
                    line,
                    a,
                    if sr.tag.is_migrating() { "migrating" } else { "importing" },
                    r1
                );
                let r2 = rt.block_on(copy.commit_migration(reported));
                ensure!(r2.is_err(), "C17:reported-task-accepted-twice", "the task '{}' was accepted twice", line);
                obs.nontrivial = true;
                obs.class(if sr.tag.is_migrating() { "journey:src-report-committed" } else { "journey:dst-report-committed" });
            }
        }
    }
    Ok(())
}

pub const RULE: &str = "[messages] arbitrary cluster-metadata messages (0..6 local nodes, 0..6 peers, 0..4 slot ranges each with 1..5 canonical sub-ranges, all tag kinds, every config field incl. extremes, empty cluster name, FORCE): plain and compressed round trip through the real RESP parser, plain==compressed, encoder vs an independent reference decoder written from docs/meta_command.md; rejection clause: EVERY proper token prefix, EVERY single-token deletion and 11 corruptions of EVERY token, plus truncations/flips of the compressed blob, real parser vs reference decoder; [repl] same for SETREPL; [tasks] migration task descriptors and switch arguments incl. the space-joined INFOMGR form; [broker] metadata of reachable broker states sent through the real coordinator sender (hook H1, capturing client) and parsed by the real proxy parser, compared with the served JSON view; every pending migration reported as finished is parsed by the real coordinator checker and committed on the issuing broker (accepted once, for src and dst reports). non-trivial = message has a migration tag / >=2 ranges on a node / non-default config (messages), >=3 records or >=2 peers (repl), tagged task (tasks), state with a migration (broker); distinct = hash of the case";

const DICT: &[&str] = &[
    "v2", "0", "1", "2", "7", "233", "18446744073709551615", "NOFLAG", "FORCE", "COMPRESS", "FORCE,COMPRESS", "mycluster", "c", "127.0.0.1:7001", "127.0.0.1:7002",
    "10.0.0.1:6000", "10.0.0.2:6000", "PEER", "CONFIG", "0-100", "101-16383", "0-16383", "5-5", "MIGRATING", "IMPORTING", "master", "replica", "MASTER", "REPLICA",
    "compression_strategy", "allow_all", "disabled", "set_get_only", "migration_max_blocking_time", "migration_scan_count", "16", "xyz", "", "-1", "+1", "16384", "100-0",
];

pub fn tokens_strategy() -> impl Strategy<Value = TokCase> {
    let tok = prop_oneof![12 => (0usize..DICT.len()).prop_map(|i| DICT[i].as_bytes().to_vec()), 1 => prop::collection::vec(any::<u8>(), 0..6), 1 => "[0-9]{1,5}-[0-9]{1,5}".prop_map(|s| s.into_bytes())];
    // grammar-shaped skeletons so that a useful fraction is accepted by the parsers
    let range = prop_oneof![
        3 => (0u32..16384, 0u32..16384).prop_map(|(a, b)| vec!["1".to_string(), format!("{}-{}", a.min(b), a.max(b))]),
        1 => (0u32..16384, 0u32..16384, any::<bool>(), 0u64..50).prop_map(|(a, b, mig, e)| vec![
            if mig { "MIGRATING" } else { "IMPORTING" }.to_string(), "1".to_string(), format!("{}-{}", a.min(b), a.max(b)), e.to_string(),
            "10.0.0.1:6000".into(), "127.0.0.1:7001".into(), "10.0.0.2:6000".into(), "127.0.0.2:7001".into()
        ]),
    ];
    let node = (prop_oneof![Just("127.0.0.1:7001"), Just("127.0.0.1:7002"), Just("127.0.0.2:7001")], range).prop_map(|(a, r)| {
        let mut v = vec![a.to_string()];
        v.extend(r);
        v
    });
    let skeleton = (0u64..5, prop_oneof![Just("NOFLAG"), Just("FORCE")], prop::collection::vec(node.clone(), 0..3), prop::option::of(prop::collection::vec(node, 0..3)), prop::option::of(prop::collection::vec((0usize..DICT.len(), 0usize..DICT.len()), 0..3)))
        .prop_map(|(e, f, local, peer, cfg)| {
            let mut t: Vec<String> = vec!["v2".into(), e.to_string(), f.into(), "mycluster".into()];
            t.extend(local.into_iter().flatten());
            if let Some(p) = peer {
                t.push("PEER".into());
                t.extend(p.into_iter().flatten());
            }
            if let Some(c) = cfg {
                t.push("CONFIG".into());
                for (k, v) in c {
                    t.push(DICT[k].into());
                    t.push(DICT[v].into());
                }
            }
            t.into_iter().map(|s| s.into_bytes()).collect::<Vec<_>>()
        });
    let edits = prop::collection::vec((any::<u16>(), 0u8..3, tok.clone()), 0..3);
    let shaped = (skeleton, edits).prop_map(|(mut t, edits)| {
        for (pos, kind, tok) in edits {
            let i = pick(pos, t.len() + 1);
            match kind {
                0 if i < t.len() => {
                    t.remove(i);
                }
                1 if i < t.len() => t[i] = tok,
                _ => t.insert(i.min(t.len()), tok),
            }
        }
        t
    });
    (any::<bool>(), prop_oneof![2 => prop::collection::vec(tok, 0..24), 3 => shaped]).prop_map(|(repl, tokens)| TokCase { repl, tokens })
}

pub const RULE_TOKENS: &str = "arbitrary token lists for UMCTL SETCLUSTER / SETREPL: (a) random sequences over a dictionary of protocol keywords, numbers (incl. 2^64-1, -1, +1, 16384), addresses, slot ranges (incl. reversed), config fields/values and short random byte strings, (b) grammar-shaped message skeletons with 0..2 random token deletions/substitutions/insertions; oracle: the real parser against the reference decoder written from docs/meta_command.md - accepted lists decode to the documented value, lists the grammar rejects are rejected; non-trivial = the real parser accepts the list (> 4 tokens for SETCLUSTER, > 2 for SETREPL); distinct = hash of the case";
pub const RULE_FUZZ: &str = "libFuzzer (coverage-guided, ASan, fixed -seed and -runs per worker process, fresh corpus seeded with golden messages and the protocol dictionary): space-separated token lists up to 512 bytes (first byte selects SETCLUSTER/SETREPL); in-target oracle = the token-list oracle of the proptest sub-check; every crash artifact is re-decided by the oracle in the parent before it is reported";

pub fn run(ctx: &Ctx, findings: &Findings) -> PropReport {
    let mut subs = vec![];
    let mut fuzz_note: Option<String> = None;
    if let Some(path) = &ctx.replay {
        let v: serde_json::Value = serde_json::from_str(&std::fs::read_to_string(path).expect("replay file")).expect("json");
        if let Some(r) = replay_case::<GMsg>(ctx, findings, "messages", &v, &check_msg) {
            subs.push(r);
        }
        if let Some(r) = replay_case::<GRepl>(ctx, findings, "repl", &v, &check_repl) {
            subs.push(r);
        }
        if let Some(r) = replay_case::<GTask>(ctx, findings, "tasks", &v, &check_task) {
            subs.push(r);
        }
        if let Some(r) = replay_case::<BCase>(ctx, findings, "broker", &v, &check_broker) {
            subs.push(r);
        }
        if let Some(r) = replay_case::<TokCase>(ctx, findings, "tokens", &v, &check_tokens) {
            subs.push(r);
        }
    } else {
        CASE_THREADS.store(false, std::sync::atomic::Ordering::Relaxed);
        subs.push(drive(ctx, findings, "messages", RULE, ctx.cases(3000, 60000), msg_strategy, &check_msg));
        subs.push(drive(ctx, findings, "repl", RULE, ctx.cases(6000, 120000), repl_strategy, &check_repl));
        subs.push(drive(ctx, findings, "tasks", RULE, ctx.cases(20000, 400000), task_strategy, &check_task));
        subs.push(drive(ctx, findings, "tokens", RULE_TOKENS, ctx.cases(200000, 4000000), tokens_strategy, &check_tokens));
        CASE_THREADS.store(true, std::sync::atomic::Ordering::Relaxed);
        subs.push(drive(ctx, findings, "broker", RULE, ctx.cases(3000, 60000), broker_strategy, &check_broker));
        if ctx.tier == Tier::Thorough {
            let to_case = |bytes: &[u8]| TokCase { repl: bytes.first().map(|b| b & 1 == 1).unwrap_or(false), tokens: crate::fuzzing::tokens_from_bytes(bytes.get(1..).unwrap_or(&[])) };
            let spec = crate::fuzzing::FuzzSpec {
                target: "c17_tokens",
                sub: "tokens",
                rule: RULE_FUZZ,
                runs: ((2_000_000.0 * ctx.scale) as u64).max(1000),
                max_len: 512,
                timeout_s: 30,
                malloc_limit_mb: 1024,
                detect_leaks: true,
                confirm: &|bytes: &[u8], obs: &mut Obs| check_tokens(&to_case(bytes), obs),
                case_of: &|bytes: &[u8]| serde_json::to_value(to_case(bytes)).unwrap(),
            };
            match crate::fuzzing::run_fuzz(ctx, findings, &spec) {
                Some(r) => subs.push(r),
                None => fuzz_note = Some(crate::fuzzing::fuzz_missing_note("c17_tokens")),
            }
        }
    }
    PropReport {
        level: "exploration",
        subs,
        assumptions: vec![
            "a node without any slot range has no representation in the plain encoding (one entry per range); values are compared modulo such empty entries".into(),
            "mutants that are themselves a well-formed encoding of another value (e.g. deleting the PEER keyword) are accepted when real parser and reference decoder agree on that value".into(),
            "tokens are sound by construction (host:port addresses, no spaces, not a protocol keyword)".into(),
        ]
        .into_iter()
        .chain(fuzz_note)
        .collect(),
        extra: Default::default(),
    }
}
