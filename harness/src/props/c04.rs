//! C04 - metadata epochs version every change and never regress.
use crate::engines::brokersim::*;
use crate::fw::*;
use crate::ensure;
use std::collections::BTreeMap;

pub fn normalized(p: &VProxy) -> VProxy {
    let mut q = p.clone();
    q.epoch = 0;
    q.peers.sort();
    q
}

#[derive(Default)]
pub struct C04Oracle {
    /// last view ever served per address
    last: BTreeMap<String, VProxy>,
    last_global: u64,
}

impl C04Oracle {
    fn observe(&mut self, v: &Views, what: &str, obs: &mut Obs) -> Result<(), Fail> {
        ensure!(
            v.epoch >= self.last_global && v.store.global_epoch >= self.last_global,
            "C04:global-epoch-regressed",
            "global epoch went from {} to {} ({})",
            self.last_global,
            v.epoch,
            what
        );
        self.last_global = v.epoch;
        for (addr, p) in &v.proxies {
            if let Some(old) = self.last.get(addr) {
                ensure!(
                    p.epoch >= old.epoch,
                    "C04:proxy-epoch-regressed",
                    "epoch served for {} went from {} to {} ({})",
                    addr,
                    old.epoch,
                    p.epoch,
                    what
                );
                let (a, b) = (normalized(old), normalized(p));
                if a != b {
                    obs.nontrivial = true;
                    obs.class(format!("changed-by:{}", what));
                    ensure!(
                        p.epoch > old.epoch,
                        "C04:change-without-epoch-bump",
                        "metadata served for {} changed but its epoch stayed {} ({})\n  before: {}\n  after:  {}",
                        addr,
                        p.epoch,
                        what,
                        serde_json::to_string(&a).unwrap_or_default(),
                        serde_json::to_string(&b).unwrap_or_default()
                    );
                }
            }
            self.last.insert(addr.clone(), p.clone());
        }
        Ok(())
    }
}

impl Oracle for C04Oracle {
    fn init(&mut self, _cfg: &BrokerCfg, v: &Views, obs: &mut Obs) -> Result<(), Fail> {
        self.observe(v, "init", obs)
    }
    fn step(&mut self, st: &Step, obs: &mut Obs) -> Result<(), Fail> {
        let what = format!("{}:{}", st.rop.kind(), if st.res.is_ok() { "ok" } else { "refused" });
        self.observe(st.post, &what, obs)
    }
}

pub fn check_case(case: &Case, obs: &mut Obs) -> Result<(), Fail> {
    obs.class(format!("cfg:limit={}", case.cfg.migration_limit));
    run_history(case, &mut C04Oracle::default(), obs)
}

pub const RULE: &str = "generated broker operation histories (as C01); after EVERY operation the per-proxy view of every registered address is compared with the last view ever served for that address (kept across de-registration): epoch must not decrease and must strictly increase when anything but the epoch differs (peer order normalised); global epoch monotone; non-trivial = at least one step changed some proxy's served content; distinct = hash of the generated case";

pub fn run(ctx: &Ctx, findings: &Findings) -> PropReport {
    let mut subs = vec![];
    if let Some(path) = &ctx.replay {
        let v: serde_json::Value = serde_json::from_str(&std::fs::read_to_string(path).expect("replay file")).expect("json");
        for name in ["history", "enumerated"] {
            if let Some(r) = replay_case::<Case>(ctx, findings, name, &v, &check_case) {
                subs.push(r);
            }
        }
    } else {
        let n = ctx.cases(30000, 600000);
        subs.push(drive(ctx, findings, "history", RULE, n, || case_strategy(ctx.tier.pick(14, 22)), &check_case));
        subs.push(drive_enum(ctx, findings, "enumerated", crate::engines::brokersim::RULE_ENUM, crate::engines::brokersim::enumerated_cases(ctx.tier.pick(3, 4)), true, &check_case));
    }
    PropReport {
        level: "exploration",
        subs,
        assumptions: vec![
            "views are read through MemBrokerService under the history's configured migration_limit (what proxies receive)".into(),
            "broker restart/epoch recovery is covered by C13, not here".into(),
        ],
        extra: Default::default(),
    }
}
