//! C12 - proxy resources are accounted consistently and chunks span two hosts.
use crate::engines::brokersim::*;
use crate::fw::*;
use crate::{ensure, fail};
use std::collections::{BTreeMap, BTreeSet};

pub fn check_store(store: &VStore) -> Result<(), Fail> {
    let mut seen: BTreeMap<&str, (String, usize, usize)> = BTreeMap::new();
    for (cname, c) in &store.clusters {
        for (ci, ch) in c.chunks.iter().enumerate() {
            for part in 0..2 {
                let a = ch.proxy_addresses[part].as_str();
                if let Some(prev) = seen.get(a) {
                    fail!(
                        "C12:proxy-in-two-positions",
                        "proxy {} is at {:?} and at ({}, chunk {}, half {})",
                        a,
                        prev,
                        cname,
                        ci,
                        part
                    );
                }
                seen.insert(a, (cname.clone(), ci, part));
                let res = match store.all_proxies.get(a) {
                    Some(r) => r,
                    None => fail!("C12:member-not-registered", "cluster {} chunk {} uses unregistered proxy {}", cname, ci, a),
                };
                ensure!(
                    res.cluster.as_deref() == Some(cname.as_str()),
                    "C12:member-not-tagged",
                    "proxy {} is in cluster {} chunk {} but its resource record says cluster={:?}",
                    a,
                    cname,
                    ci,
                    res.cluster
                );
                ensure!(
                    res.host == ch.hosts[part]
                        && res.node_addresses[0] == ch.node_addresses[2 * part]
                        && res.node_addresses[1] == ch.node_addresses[2 * part + 1],
                    "C12:chunk-record-mismatch",
                    "cluster {} chunk {} half {} records host/nodes {:?}/{:?} but the proxy resource says {:?}/{:?}",
                    cname,
                    ci,
                    part,
                    ch.hosts[part],
                    &ch.node_addresses[2 * part..2 * part + 2],
                    res.host,
                    res.node_addresses
                );
            }
        }
    }
    for (a, res) in &store.all_proxies {
        if let Some(c) = &res.cluster {
            ensure!(
                seen.get(a.as_str()).map(|x| &x.0) == Some(c),
                "C12:tagged-not-member",
                "proxy {} is tagged with cluster {} but is not a member of any of its chunks",
                a,
                c
            );
        }
    }
    Ok(())
}

fn chunk_ids(c: &VClusterStore) -> BTreeSet<[String; 2]> {
    c.chunks.iter().map(|c| c.proxy_addresses.clone()).collect()
}

/// blank the parts of a snapshot that a takeover (the first half of a failover) may touch
fn blank_takeover(store: &VStore, addr: &str) -> VStore {
    let mut s = store.without_global_epoch();
    s.failed_proxies.remove(addr);
    for c in s.clusters.values_mut() {
        c.epoch = 0;
        for ch in c.chunks.iter_mut() {
            ch.role_position = String::new();
            for m in ch.migrating_slots.iter_mut() {
                for x in m.iter_mut() {
                    x.meta.epoch = 0;
                }
            }
        }
    }
    s
}

pub struct C12Oracle;

impl C12Oracle {
    fn state(&self, v: &Views) -> Result<(), Fail> {
        check_store(&v.store)?;
        ensure!(
            v.broker_check_ok,
            "C12:broker-self-check-failed",
            "the broker's own consistency check (check_metadata) reports inconsistent metadata"
        );
        Ok(())
    }
}

impl Oracle for C12Oracle {
    fn init(&mut self, cfg: &BrokerCfg, v: &Views, obs: &mut Obs) -> Result<(), Fail> {
        let mut sizes: Vec<u8> = cfg.hosts.clone();
        sizes.sort();
        if sizes.first() != sizes.last() {
            obs.nontrivial = true;
            obs.class("layout:skewed");
        }
        if cfg.hosts.iter().map(|x| *x as usize).sum::<usize>() % 2 == 1 {
            obs.class("layout:odd-total");
        }
        self.state(v)
    }
    fn step(&mut self, st: &Step, obs: &mut Obs) -> Result<(), Fail> {
        self.state(st.post)?;
        let pre = &st.pre.store;
        let post = &st.post.store;
        // refused request => no partial state
        if let Err(code) = st.res {
            match st.rop {
                ROp::ReAdd { addr, .. } => {
                    // documented: re-registering clears the failure marks of that address
                    let mut a = pre.without_global_epoch();
                    a.failed_proxies.remove(addr);
                    a.failures.remove(addr);
                    ensure!(
                        a == post.without_global_epoch(),
                        "C12:refused-changed-state",
                        "refused re-registration of {} ({}) changed more than its failure marks",
                        addr,
                        code
                    );
                }
                ROp::Failover { addr } => {
                    // documented: the takeover is performed before a replacement is looked for
                    ensure!(
                        blank_takeover(pre, addr) == blank_takeover(post, addr),
                        "C12:refused-changed-state",
                        "refused failover of {} ({}) changed more than the takeover may change",
                        addr,
                        code
                    );
                    obs.class("refused:failover-no-replacement");
                }
                ROp::AutoScale { .. } => {
                    // the auto API is documented as retryable: its first phase (delete free
                    // nodes, add nodes) may have been applied; consistency is checked above
                    obs.class("refused:auto-scale");
                }
                _ => {
                    ensure!(
                        pre.without_global_epoch() == post.without_global_epoch(),
                        "C12:refused-changed-state",
                        "request {:?} was refused with {} but changed the metadata snapshot",
                        st.rop,
                        code
                    );
                }
            }
            if matches!(
                st.rop,
                ROp::AddCluster { .. } | ROp::AddNodes { .. } | ROp::ScaleUp { .. } | ROp::AutoScale { .. } | ROp::Failover { .. }
            ) {
                obs.nontrivial = true;
                obs.class(format!("refused-allocation:{}", code));
                // generator reach: would the resources have sufficed for AddCluster/AddNodes?
                if let ROp::AddCluster { nodes, .. } | ROp::AddNodes { nodes, .. } = st.rop {
                    if *nodes > 0 && nodes % 4 == 0 && !st.cfg.ordered {
                        let mut per_host: BTreeMap<&str, usize> = BTreeMap::new();
                        for p in pre.free_healthy() {
                            *per_host.entry(p.host.as_str()).or_insert(0) += 1;
                        }
                        let total: usize = per_host.values().sum();
                        let maxh = per_host.values().max().copied().unwrap_or(0);
                        if (total / 2).min(total - maxh) >= nodes / 4 && (code == "NO_AVAILABLE_RESOURCE" || code == "RESOURCE_NOT_BALANCE") {
                            obs.class("reach:refused-although-pairs-would-suffice");
                        }
                    }
                }
            }
        }
        // newly allocated proxies come from the free healthy pool; new chunks span two hosts
        let free_before: BTreeSet<&str> = pre.free_healthy().iter().map(|p| p.proxy_address.as_str()).collect();
        for (a, r) in &post.all_proxies {
            if r.cluster.is_some() && pre.all_proxies.get(a).map(|x| x.cluster.is_none()).unwrap_or(true) {
                ensure!(
                    free_before.contains(a.as_str()),
                    "C12:allocated-unhealthy-or-unknown",
                    "proxy {} was allocated to {:?} by {:?} but was not a free healthy proxy before (failed={}, under report={})",
                    a,
                    r.cluster,
                    st.rop,
                    pre.failed_proxies.contains(a),
                    pre.failures.contains_key(a)
                );
            }
        }
        if !st.cfg.ordered
            && matches!(
                st.rop,
                ROp::AddCluster { .. } | ROp::AddNodes { .. } | ROp::ScaleUp { .. } | ROp::AutoScale { .. }
            )
        {
            for (cname, c) in &post.clusters {
                let before = pre.clusters.get(cname).map(chunk_ids).unwrap_or_default();
                for ch in &c.chunks {
                    if !before.contains(&ch.proxy_addresses) {
                        obs.class("chunk-created");
                        ensure!(
                            ch.hosts[0] != ch.hosts[1],
                            "C12:chunk-on-one-host",
                            "{:?} created chunk {:?} of cluster {} with both halves on host {}",
                            st.rop,
                            ch.proxy_addresses,
                            cname,
                            ch.hosts[0]
                        );
                    }
                }
            }
        }
        // replacement host
        if let (ROp::Failover { addr }, Ok(v)) = (st.rop, st.res) {
            if !v.is_null() {
                if let Some((c, ci, part)) = pre.find_chunk(addr) {
                    let partner_host = &c.chunks[ci].hosts[1 - part];
                    let failed_host = &c.chunks[ci].hosts[part];
                    let new_chunk = &post.clusters[&c.name].chunks[ci];
                    let new_host = &new_chunk.hosts[part];
                    obs.nontrivial = true;
                    obs.class("replacement");
                    let third: Vec<&str> = pre
                        .free_healthy()
                        .iter()
                        .map(|p| p.host.as_str())
                        .filter(|h| *h != partner_host.as_str() && *h != failed_host.as_str())
                        .collect();
                    if new_host == partner_host {
                        obs.class("replacement:on-partner-host");
                        ensure!(
                            third.is_empty(),
                            "C12:replacement-on-partner-host",
                            "failed proxy {} (host {}) of cluster {} chunk {} was replaced by {} on host {}, the host of its surviving partner {}, although host(s) {:?} had a free healthy proxy",
                            addr,
                            failed_host,
                            c.name,
                            ci,
                            new_chunk.proxy_addresses[part],
                            new_host,
                            new_chunk.proxy_addresses[1 - part],
                            third.iter().collect::<BTreeSet<_>>()
                        );
                    }
                }
            }
        }
        Ok(())
    }
}

pub fn check_case(case: &Case, obs: &mut Obs) -> Result<(), Fail> {
    if case.cfg.ordered {
        obs.class("cfg:ordered");
    }
    run_history(case, &mut C12Oracle, obs)
}

pub const RULE: &str = "generated host layouts (2..6 hosts x 0..7 proxies, skewed/odd totals) and operation histories incl. removals, failure reports, failovers, re-registrations and two competing clusters; after EVERY step: membership/free-pool complement and chunk records recomputed from the /metadata snapshot, the broker's own check_metadata, panics caught; refused requests must leave the snapshot unchanged (mod global epoch, with the two documented exceptions); created chunks span two hosts (non-ordered mode); replacement host rule; non-trivial = skewed layout, or a refused allocation, or a replacement happened; distinct = hash of the generated case";

pub fn layouts_strategy() -> impl proptest::strategy::Strategy<Value = Case> {
    use proptest::prelude::*;
    // allocation-centred histories: many proxies, competing clusters, failures
    (case_strategy(10), prop::collection::vec(0u8..=7, 2..=6)).prop_map(|(mut c, hosts)| {
        c.cfg.hosts = hosts;
        c
    })
}

pub fn run(ctx: &Ctx, findings: &Findings) -> PropReport {
    let mut subs = vec![];
    if let Some(path) = &ctx.replay {
        let v: serde_json::Value = serde_json::from_str(&std::fs::read_to_string(path).expect("replay file")).expect("json");
        for name in ["history", "layouts", "enumerated"] {
            if let Some(r) = replay_case::<Case>(ctx, findings, name, &v, &check_case) {
                subs.push(r);
            }
        }
    } else {
        let n = ctx.cases(24000, 480000);
        subs.push(drive(ctx, findings, "history", RULE, n, || case_strategy(ctx.tier.pick(14, 22)), &check_case));
        subs.push(drive_enum(ctx, findings, "enumerated", crate::engines::brokersim::RULE_ENUM, crate::engines::brokersim::enumerated_cases(ctx.tier.pick(3, 4)), true, &check_case));
        subs.push(drive(ctx, findings, "layouts", RULE, n / 2, layouts_strategy, &check_case));
    }
    PropReport {
        level: "exploration",
        subs,
        assumptions: vec![
            "the replacement-host clause is only demanded when a host other than BOTH the surviving partner's and the failed proxy's own host had a free healthy proxy (the code never reuses the failed proxy's host; demanding that would over-read the property)".into(),
            "whether a refusal was necessary is not judged (no completeness claim for the allocator)".into(),
            "the two-hosts clause is not demanded in ordered-proxy mode (allocation by StatefulSet index ignores hosts by design)".into(),
        ],
        extra: Default::default(),
    }
}
