//! C05 - a proxy installs metadata iff it is strictly newer, atomically.
use crate::engines::world::*;
use crate::fw::*;
use crate::props::c09::{ref_slot, slot_keys};
use crate::{ensure, fail};
use proptest::prelude::*;
use serde::{Deserialize, Serialize};
use std::collections::{BTreeMap, BTreeSet, HashMap};
use std::convert::TryFrom;
use std::sync::atomic::{AtomicU64, Ordering};
use std::sync::Arc;
use undermoon::common::cluster::{ClusterName, Range, RangeList, ReplPeer, SlotRange, SlotRangeTag};
use undermoon::common::config::ClusterConfig;
use undermoon::common::proto::{ClusterMapFlags, ProxyClusterMeta};
use undermoon::protocol::{Array, BulkStr, Resp, RespVec};
use undermoon::replication::replicator::{encode_repl_meta, MasterMeta, ReplicaMeta, ReplicatorMeta};

pub const PROXY: &str = "127.0.0.1:6000";
const NODES: [&str; 2] = ["127.0.0.1:7001", "127.0.0.1:7002"];
const FOREIGN_NODE: &str = "127.0.0.9:7001";
const PEERS: [&str; 2] = ["127.0.0.2:6000", "127.0.0.3:6000"];

#[derive(Debug, Clone, Serialize, Deserialize)]
pub enum MsgKind {
    /// cluster metadata with one of 4 layouts
    Cluster { layout: u8, compress: bool, foreign: bool },
    /// replication metadata with one of 4 contents
    Repl { content: u8, foreign: bool },
    MalformedCluster(u8),
    MalformedRepl(u8),
}

#[derive(Debug, Clone, Serialize, Deserialize)]
pub struct Message {
    pub epoch: u64,
    pub force: bool,
    pub kind: MsgKind,
}

#[derive(Debug, Clone, Serialize, Deserialize)]
pub struct SeqCase {
    pub msgs: Vec<Message>,
}

fn message(allow_force: bool) -> impl Strategy<Value = Message> {
    let kind = prop_oneof![
        8 => (prop_oneof![8 => 0u8..4, 1 => Just(4u8)], any::<bool>(), prop::bool::weighted(0.12)).prop_map(|(layout, compress, foreign)| MsgKind::Cluster { layout, compress, foreign: foreign && layout < 4 }),
        6 => (0u8..4, prop::bool::weighted(0.12)).prop_map(|(content, foreign)| MsgKind::Repl { content, foreign }),
        1 => (0u8..5).prop_map(MsgKind::MalformedCluster),
        1 => (0u8..4).prop_map(MsgKind::MalformedRepl),
    ];
    (1u64..8, prop::bool::weighted(if allow_force { 0.12 } else { 0.0 }), kind).prop_map(|(epoch, force, kind)| Message { epoch, force, kind })
}

pub fn seq_strategy() -> impl Strategy<Value = SeqCase> {
    prop::collection::vec(message(true), 1..25).prop_map(|msgs| SeqCase { msgs })
}

/// the four distinguishable layouts: where the two local nodes and the two peers own slots
fn layout_ranges(layout: u8) -> [(usize, usize); 4] {
    // [node0, node1, peer0, peer1] as contiguous quarters in a layout-specific rotation
    let q = [(0, 4095), (4096, 8191), (8192, 12287), (12288, 16383)];
    let r = (layout % 4) as usize;
    [q[r % 4], q[(r + 1) % 4], q[(r + 2) % 4], q[(r + 3) % 4]]
}

fn build_cluster_cmd(m: &Message) -> Option<Cmd> {
    let MsgKind::Cluster { layout, compress, foreign } = &m.kind else { return None };
    let r = layout_ranges(*layout);
    let sr = |x: (usize, usize)| vec![SlotRange { range_list: RangeList::new(vec![Range(x.0, x.1)]), tag: SlotRangeTag::None }];
    let mut local = HashMap::new();
    let mut peer = HashMap::new();
    // layout 4 = the message a proxy gets when it is released from its cluster: empty name, no nodes
    let released = *layout >= 4;
    if !released {
        local.insert(if *foreign { FOREIGN_NODE.to_string() } else { NODES[0].to_string() }, sr(r[0]));
        local.insert(NODES[1].to_string(), sr(r[1]));
        peer.insert(PEERS[0].to_string(), sr(r[2]));
        peer.insert(PEERS[1].to_string(), sr(r[3]));
    }
    let meta = ProxyClusterMeta::new(
        m.epoch,
        ClusterMapFlags { force: m.force, compress: *compress },
        ClusterName::try_from(if released { "" } else { "c" }).expect("n"),
        local,
        peer,
        ClusterConfig::default(),
    );
    let args = if *compress { meta.to_compressed_args().ok()? } else { meta.to_args() };
    let mut c = cmd(&["UMCTL", "SETCLUSTER"]);
    c.extend(args.into_iter().map(|s| s.into_bytes()));
    Some(c)
}

/// replication contents: (masters, replicas) as (node, peer node, peer proxy)
fn repl_content(content: u8) -> (Vec<(String, String, String)>, Vec<(String, String, String)>) {
    let p = |n: &str, pn: &str, pp: &str| (n.to_string(), pn.to_string(), pp.to_string());
    match content % 4 {
        0 => (vec![p(NODES[0], "127.0.0.2:7002", PEERS[0])], vec![p(NODES[1], "127.0.0.2:7001", PEERS[0])]),
        1 => (vec![p(NODES[0], "127.0.0.2:7002", PEERS[0]), p(NODES[1], "127.0.0.2:7001", PEERS[0])], vec![]),
        2 => (vec![], vec![p(NODES[0], "127.0.0.3:7002", PEERS[1]), p(NODES[1], "127.0.0.3:7001", PEERS[1])]),
        _ => (vec![p(NODES[1], "127.0.0.3:7001", PEERS[1])], vec![p(NODES[0], "127.0.0.3:7002", PEERS[1])]),
    }
}

fn build_repl_cmd(m: &Message) -> Option<Cmd> {
    let MsgKind::Repl { content, foreign } = &m.kind else { return None };
    let (ms, rs) = repl_content(*content);
    let name = ClusterName::try_from("c").expect("n");
    let mut masters: Vec<MasterMeta> = ms
        .iter()
        .map(|(n, pn, pp)| MasterMeta { cluster_name: name.clone(), master_node_address: n.clone(), replicas: vec![ReplPeer { node_address: pn.clone(), proxy_address: pp.clone() }] })
        .collect();
    let replicas: Vec<ReplicaMeta> = rs
        .iter()
        .map(|(n, pn, pp)| ReplicaMeta { cluster_name: name.clone(), replica_node_address: n.clone(), masters: vec![ReplPeer { node_address: pn.clone(), proxy_address: pp.clone() }] })
        .collect();
    if *foreign {
        masters.push(MasterMeta { cluster_name: name, master_node_address: FOREIGN_NODE.to_string(), replicas: vec![] });
    }
    let meta = ReplicatorMeta { epoch: m.epoch, flags: ClusterMapFlags { force: m.force, compress: false }, masters, replicas };
    let mut c = cmd(&["UMCTL", "SETREPL"]);
    c.extend(encode_repl_meta(meta).into_iter().map(|s| s.into_bytes()));
    Some(c)
}

fn build_cmd(m: &Message) -> Cmd {
    match &m.kind {
        MsgKind::Cluster { .. } => build_cluster_cmd(m).expect("cluster cmd"),
        MsgKind::Repl { .. } => build_repl_cmd(m).expect("repl cmd"),
        MsgKind::MalformedCluster(k) => {
            let e = m.epoch.to_string();
            match k {
                0 => cmd(&["UMCTL", "SETCLUSTER", "v2", &e]),
                1 => cmd(&["UMCTL", "SETCLUSTER", "v1", &e, "NOFLAG", "c", NODES[0], "1", "0-16383"]),
                2 => cmd(&["UMCTL", "SETCLUSTER", "v2", "notanumber", "NOFLAG", "c", NODES[0], "1", "0-16383"]),
                3 => cmd(&["UMCTL", "SETCLUSTER", "v2", &e, "NOFLAG", "c", NODES[0], "1", "0-16383", "PEER", PEERS[0]]),
                _ => cmd(&["UMCTL", "SETCLUSTER", "v2", &e, "COMPRESS", "!!!notbase64!!!"]),
            }
        }
        MsgKind::MalformedRepl(k) => {
            let e = m.epoch.to_string();
            match k {
                0 => cmd(&["UMCTL", "SETREPL"]),
                1 => cmd(&["UMCTL", "SETREPL", "x", "NOFLAG"]),
                2 => cmd(&["UMCTL", "SETREPL", &e, "NOFLAG", "master", "c", NODES[0], "2", "127.0.0.2:7002"]),
                _ => cmd(&["UMCTL", "SETREPL", &e, "NOFLAG", "boss", "c", NODES[0], "0"]),
            }
        }
    }
}

#[derive(Debug, Clone, Default, PartialEq)]
pub struct Model {
    pub cluster_epoch: u64,
    pub cluster_layout: Option<u8>,
    pub repl_epoch: u64,
    pub repl_content: Option<u8>,
}

#[derive(Debug, PartialEq, Clone, Copy)]
pub enum Expect {
    Applied,
    OldEpoch,
    NotMyMeta,
    ParseError,
}

impl Model {
    pub fn expect(&self, m: &Message) -> Expect {
        match &m.kind {
            MsgKind::MalformedCluster(_) | MsgKind::MalformedRepl(_) => Expect::ParseError,
            MsgKind::Cluster { foreign, .. } => {
                if *foreign {
                    Expect::NotMyMeta
                } else if m.force || m.epoch > self.cluster_epoch {
                    Expect::Applied
                } else {
                    Expect::OldEpoch
                }
            }
            MsgKind::Repl { foreign, .. } => {
                if *foreign {
                    Expect::NotMyMeta
                } else if m.force || m.epoch > self.repl_epoch {
                    Expect::Applied
                } else {
                    Expect::OldEpoch
                }
            }
        }
    }
    pub fn apply(&mut self, m: &Message) {
        match &m.kind {
            MsgKind::Cluster { layout, .. } => {
                self.cluster_epoch = m.epoch;
                self.cluster_layout = Some(*layout);
            }
            MsgKind::Repl { content, .. } => {
                self.repl_epoch = m.epoch;
                self.repl_content = Some(*content);
            }
            _ => {}
        }
    }
}

pub fn classify(r: &RespVec) -> &'static str {
    match r {
        Resp::Simple(s) if s == b"OK" => "OK",
        Resp::Simple(_) => "OK-with-warning",
        Resp::Error(e) if e.starts_with(b"OLD_EPOCH") => "OLD_EPOCH",
        Resp::Error(e) if String::from_utf8_lossy(e).contains("NOT_MY_META") => "NOT_MY_META",
        Resp::Error(_) => "other-error",
        _ => "unexpected",
    }
}

const PROBE_SLOTS: [usize; 8] = [0, 2000, 4095, 4096, 8191, 8192, 12288, 16383];

pub async fn observe(world: &World, model: &Model, when: &str) -> Result<(), Fail> {
    // reported epoch
    let r = world.once(PROXY, &cmd(&["UMCTL", "GETEPOCH"])).await;
    ensure!(
        matches!(&r, Resp::Integer(i) if i == model.cluster_epoch.to_string().as_bytes()),
        "C05:reported-epoch",
        "{}: UMCTL GETEPOCH = {}, the accepted cluster messages imply {}",
        when,
        show_resp(&r),
        model.cluster_epoch
    );
    // routing corresponds to the message carrying that epoch
    for slot in PROBE_SLOTS {
        let key = &slot_keys()[slot];
        let reply = world.once(PROXY, &cmdb(&[b"GET", key])).await;
        let outcome = match parse_moved(&reply) {
            Some((s, a)) => format!("MOVED {} {}", s, a),
            None => match &reply {
                Resp::Error(e) => format!("ERR {}", String::from_utf8_lossy(e)),
                _ => "EXECUTED".to_string(),
            },
        };
        let want = match model.cluster_layout {
            None => None,
            // released from its cluster: nothing is served any more
            Some(l) if l >= 4 => None,
            Some(l) => {
                let r = layout_ranges(l);
                let idx = r.iter().position(|(a, b)| slot >= *a && slot <= *b).expect("covered");
                Some(match idx {
                    0 | 1 => "EXECUTED".to_string(),
                    i => format!("MOVED {} {}", slot, PEERS[i - 2]),
                })
            }
        };
        match want {
            None => ensure!(outcome.starts_with("ERR"), "C05:routing", "{}: no cluster metadata installed (or the proxy was released from its cluster) but GET slot {} gives {}", when, slot, outcome),
            Some(w) => ensure!(
                outcome == w,
                "C05:routing-does-not-match-reported-epoch",
                "{}: epoch {} layout {:?}: GET of slot {} gives '{}', the installed message implies '{}'",
                when,
                model.cluster_epoch,
                model.cluster_layout,
                slot,
                outcome,
                w
            ),
        }
    }
    // which local node executed: check via stand-in logs is part of C09; here roles:
    let r = world.once(PROXY, &cmd(&["UMCTL", "INFOREPL"])).await;
    let mut got: BTreeSet<(String, String, String)> = BTreeSet::new(); // (role, node, peer)
    if let Resp::Arr(Array::Arr(items)) = &r {
        for it in items {
            if let Resp::Arr(Array::Arr(lines)) = it {
                let ls: Vec<String> = lines
                    .iter()
                    .filter_map(|l| match l {
                        Resp::Bulk(BulkStr::Str(s)) => Some(String::from_utf8_lossy(s).trim().to_string()),
                        _ => None,
                    })
                    .collect();
                let role = ls.iter().find_map(|l| l.strip_prefix("role:")).unwrap_or("").to_string();
                let node = ls.iter().find_map(|l| l.strip_prefix("node_address:")).unwrap_or("").to_string();
                let peer = ls.iter().find_map(|l| l.strip_prefix("replica:").or_else(|| l.strip_prefix("master:"))).unwrap_or("").to_string();
                got.insert((role, node, peer));
            }
        }
    } else {
        fail!("C05:inforepl", "{}: UMCTL INFOREPL replied {}", when, show_resp(&r));
    }
    let mut want: BTreeSet<(String, String, String)> = BTreeSet::new();
    if let Some(c) = model.repl_content {
        let (ms, rs) = repl_content(c);
        for (n, pn, pp) in ms {
            want.insert(("master".into(), n, format!("{}@{}", pn, pp)));
        }
        for (n, pn, pp) in rs {
            want.insert(("replica".into(), n, format!("{}@{}", pn, pp)));
        }
    }
    ensure!(
        got == want,
        "C05:replication-roles",
        "{}: UMCTL INFOREPL shows {:?}, the accepted replication message (epoch {}, content {:?}) implies {:?}",
        when,
        got,
        model.repl_epoch,
        model.repl_content,
        want
    );
    Ok(())
}

fn build_world() -> World {
    let world = World::new();
    world.net.add_proxy(PROXY, &ProxyOpts::default());
    for n in NODES {
        world.net.add_redis(n, 0);
    }
    world
}

async fn run_seq(case: &SeqCase, obs: &mut Obs) -> Result<(), Fail> {
    let world = build_world();
    let mut model = Model::default();
    let mut max_epoch_seen = (0u64, 0u64);
    for (i, m) in case.msgs.iter().enumerate() {
        let c = build_cmd(m);
        let want = model.expect(m);
        let reply = world.once(PROXY, &c).await;
        let got = classify(&reply);
        let when = format!("after message {} ({:?})", i, m);
        // stale / equal-epoch delivery after a newer one?
        let (seen, is_cluster) = match m.kind {
            MsgKind::Cluster { .. } => (max_epoch_seen.0, true),
            MsgKind::Repl { .. } => (max_epoch_seen.1, false),
            _ => (0, true),
        };
        if matches!(m.kind, MsgKind::Cluster { .. } | MsgKind::Repl { .. }) && m.epoch <= seen {
            obs.nontrivial = true;
            obs.class(if m.epoch == seen { "delivery:equal-epoch" } else { "delivery:stale-epoch" });
        }
        if m.force {
            obs.class("delivery:forced");
        }
        match want {
            Expect::Applied => {
                ensure!(got == "OK", "C05:newer-not-applied", "{}: expected to be applied (installed epochs cluster={} repl={}), reply {}", when, model.cluster_epoch, model.repl_epoch, show_resp(&reply));
                model.apply(m);
                if is_cluster {
                    max_epoch_seen.0 = max_epoch_seen.0.max(m.epoch);
                } else {
                    max_epoch_seen.1 = max_epoch_seen.1.max(m.epoch);
                }
            }
            Expect::OldEpoch => ensure!(
                got == "OLD_EPOCH",
                "C05:stale-not-refused",
                "{}: epoch {} is not newer than the installed one (cluster={} repl={}); expected OLD_EPOCH, reply {}",
                when,
                m.epoch,
                model.cluster_epoch,
                model.repl_epoch,
                show_resp(&reply)
            ),
            Expect::NotMyMeta => {
                obs.class("delivery:foreign-host");
                ensure!(matches!(reply, Resp::Error(_)), "C05:foreign-meta-accepted", "{}: local nodes on another host must be refused, reply {}", when, show_resp(&reply));
            }
            Expect::ParseError => {
                obs.class("delivery:malformed");
                ensure!(matches!(reply, Resp::Error(_)), "C05:malformed-accepted", "{}: malformed message accepted: {}", when, show_resp(&reply));
            }
        }
        observe(&world, &model, &when).await?;
    }
    Ok(())
}

pub fn check_seq(case: &SeqCase, obs: &mut Obs) -> Result<(), Fail> {
    let rt = world_runtime();
    let r = rt.block_on(run_seq(case, obs));
    drop(rt);
    r
}

// --- concurrent delivery (free-running threads, no hooks) ---------------------

#[derive(Debug, Clone, Serialize, Deserialize)]
pub struct ConcCase {
    pub threads: Vec<Vec<Message>>,
}

pub fn conc_strategy() -> impl Strategy<Value = ConcCase> {
    let msg = (1u64..6, 0u8..4, any::<bool>()).prop_map(|(epoch, layout, compress)| Message { epoch, force: false, kind: MsgKind::Cluster { layout, compress, foreign: false } });
    let rmsg = (1u64..6, 0u8..4).prop_map(|(epoch, content)| Message { epoch, force: false, kind: MsgKind::Repl { content, foreign: false } });
    prop::collection::vec(prop::collection::vec(prop_oneof![3 => msg, 2 => rmsg], 1..6), 2..5).prop_map(|threads| ConcCase { threads })
}

#[derive(Debug, Clone)]
struct Done {
    msg: Message,
    start: u64,
    end: u64,
    ok: bool,
    reply: String,
}

pub fn check_conc(case: &ConcCase, obs: &mut Obs) -> Result<(), Fail> {
    let rt = tokio::runtime::Builder::new_multi_thread().worker_threads(4).enable_time().build().expect("rt");
    let clock = Arc::new(AtomicU64::new(1));
    let result: Result<(), Fail> = rt.block_on(async {
        let world = Arc::new(build_world());
        let mut handles = vec![];
        for msgs in case.threads.clone() {
            let world = world.clone();
            let clock = clock.clone();
            handles.push(tokio::spawn(async move {
                let mut out = vec![];
                let client = world.client(PROXY).expect("proxy");
                for m in msgs {
                    let c = build_cmd(&m);
                    let start = clock.fetch_add(1, Ordering::SeqCst);
                    let reply = client.cmd(&c).await;
                    let end = clock.fetch_add(1, Ordering::SeqCst);
                    out.push(Done { msg: m, start, end, ok: classify(&reply) == "OK", reply: show_resp(&reply) });
                    tokio::task::yield_now().await;
                }
                out
            }));
        }
        let mut all: Vec<Done> = vec![];
        for h in handles {
            all.extend(h.await.map_err(|e| Fail::new("C05:concurrent-task-panicked", e.to_string()))?);
        }
        for d in &all {
            // a well-formed message for this host is either applied or refused as old - nothing else
            ensure!(d.ok || d.reply.contains("OLD_EPOCH"), "C05:concurrent-unexpected-reply", "message {:?} got {} (neither applied nor answered OLD_EPOCH)", d.msg, d.reply);
        }
        for is_cluster in [true, false] {
            let of_kind: Vec<&Done> = all.iter().filter(|d| matches!(d.msg.kind, MsgKind::Cluster { .. }) == is_cluster).collect();
            let oks: Vec<&&Done> = of_kind.iter().filter(|d| d.ok).collect();
            // (1) two accepted messages never carry the same epoch, and an accepted message with a
            // smaller epoch cannot have started after a larger one completed
            for a in &oks {
                for b in &oks {
                    if std::ptr::eq(**a, **b) {
                        continue;
                    }
                    ensure!(
                        a.msg.epoch != b.msg.epoch,
                        "C05:two-messages-accepted-with-equal-epoch",
                        "two concurrently delivered non-forced messages with epoch {} were both answered OK: {:?} and {:?}",
                        a.msg.epoch,
                        a.msg,
                        b.msg
                    );
                    if a.msg.epoch > b.msg.epoch {
                        ensure!(
                            !(a.end < b.start),
                            "C05:older-accepted-after-newer",
                            "message with epoch {} was accepted although a message with epoch {} had already been accepted before it was sent",
                            b.msg.epoch,
                            a.msg.epoch
                        );
                    }
                }
            }
            // (2) a refused message must be explainable: some message with epoch >= its own was
            // delivered (accepted) not after it completed
            for d in of_kind.iter().filter(|d| !d.ok && d.reply.contains("OLD_EPOCH")) {
                if oks.iter().any(|o| o.msg.epoch >= d.msg.epoch && o.start < d.end) {
                    continue;
                }
                // not explainable by an accepted message. For replication metadata the proxy raises an
                // optimistic "updating epoch" before it installs anything: a concurrent update that is
                // itself refused later can make this one fail fast.
                let aborted_rival = of_kind.iter().find(|a| !std::ptr::eq(**a, *d) && !a.ok && a.msg.epoch >= d.msg.epoch && a.start < d.end && d.start < a.end);
                if let (false, Some(rival)) = (is_cluster, aborted_rival) {
                    tolerate_known(
                        obs,
                        Fail::new(
                            "C05:setrepl-refused-by-aborted-concurrent-update",
                            format!(
                                "SETREPL {:?} was answered OLD_EPOCH although no message with epoch >= {} was or had been accepted while it ran; the overlapping SETREPL {:?} had raised the optimistic updating epoch and was itself refused later",
                                d.msg, d.msg.epoch, rival.msg
                            ),
                        ),
                    )?;
                    continue;
                }
                fail!(
                    "C05:refused-without-newer",
                    "message {:?} was refused with OLD_EPOCH but no accepted message with epoch >= {} overlaps or precedes it",
                    d.msg,
                    d.msg.epoch
                );
            }
        }
        // (3) final state = the accepted message with the largest epoch of each kind
        let mut model = Model::default();
        for is_cluster in [true, false] {
            if let Some(best) = all.iter().filter(|d| d.ok && matches!(d.msg.kind, MsgKind::Cluster { .. }) == is_cluster).max_by_key(|d| d.msg.epoch) {
                model.apply(&best.msg);
            }
        }
        let overlapping = all.iter().any(|a| all.iter().any(|b| !std::ptr::eq(a, b) && a.start < b.end && b.start < a.end));
        if overlapping {
            obs.nontrivial = true;
            obs.class("concurrent:overlapping-deliveries");
        }
        observe(&world, &model, "after all concurrent deliveries").await
    });
    rt.shutdown_background();
    result
}

pub const RULE_SEQ: &str = "[sequential] sequences of 1..24 SETCLUSTER/SETREPL messages with epochs from a pool of 7 (equal, lower, higher all occur), FORCE/COMPRESS flags, 4 distinguishable layouts plus the empty-cluster message a released proxy gets / 4 replication contents, local nodes on the announce host or (12%) on another host, malformed messages; delivered to a real proxy; oracle: sequential reference model (applied iff forced or epoch > installed epoch of its kind -> OK else OLD_EPOCH; foreign/malformed -> error, no change); after EVERY message GETEPOCH == model, routing of 8 probe slots == layout of the installed message, INFOREPL == installed replication content; non-trivial = an equal-epoch or stale delivery after a newer one; distinct = hash of the case";
pub const RULE_CONC: &str = "[concurrent] 2..4 tasks on a 4-thread runtime deliver lists of non-forced messages to the same proxy concurrently (free-running, no hooks); oracle: invocation/completion stamps; accepted messages of a kind have pairwise distinct epochs and respect real-time order, every OLD_EPOCH is explainable by an accepted message with epoch >= its own that did not start after it ended, final GETEPOCH/routing/roles = accepted message with the largest epoch; non-trivial = deliveries overlapped in time";

pub fn run(ctx: &Ctx, findings: &Findings) -> PropReport {
    let mut subs = vec![];
    if let Some(path) = &ctx.replay {
        let v: serde_json::Value = serde_json::from_str(&std::fs::read_to_string(path).expect("replay file")).expect("json");
        if let Some(r) = replay_case::<SeqCase>(ctx, findings, "sequential", &v, &check_seq) {
            subs.push(r);
        }
        if let Some(r) = replay_case::<ConcCase>(ctx, findings, "concurrent", &v, &check_conc) {
            subs.push(r);
        }
    } else {
        let _ = slot_keys();
        let _ = ref_slot(b"x");
        subs.push(drive(ctx, findings, "sequential", RULE_SEQ, ctx.cases(6000, 120000), seq_strategy, &check_seq));
        let conc_ctx = Ctx { prop: ctx.prop.clone(), tier: ctx.tier, seed: ctx.seed, replay: None, verif_dir: ctx.verif_dir.clone(), workers: 4, started: ctx.started, scale: ctx.scale };
        subs.push(drive(&conc_ctx, findings, "concurrent", RULE_CONC, ctx.cases(1500, 30000), conc_strategy, &check_conc));
    }
    let _ = BTreeMap::<u8, u8>::new();
    PropReport {
        level: "exploration",
        subs,
        assumptions: vec![
            "the concurrent sub-check runs free (OS scheduling); it is a weak complement: interleavings are not enumerated".into(),
            "a foreign-host message is expected to be refused with any error (the host check runs before the epoch check)".into(),
        ],
        extra: Default::default(),
    }
}
