//! C01 - every slot has exactly one owner in every broker view.
use crate::engines::brokersim::*;
use crate::fw::*;
use crate::{ensure, fail};
use std::collections::BTreeMap;

pub const SLOTS: usize = 16384;

/// owner of each slot by (proxy, node) computed from master nodes' stable and
/// migrating-out ranges. Fails if a slot is covered twice or not at all.
pub fn owner_array(cl: &VCluster) -> Result<Vec<u16>, Fail> {
    const NONE: u16 = u16::MAX;
    let mut owner: Vec<u16> = vec![NONE; SLOTS];
    for (ni, n) in cl.nodes.iter().enumerate() {
        if !n.is_master() {
            ensure!(
                n.slots.is_empty(),
                "C01:replica-owns-slots",
                "cluster {} replica node {} owns slots {:?}",
                cl.name,
                n.address,
                n.slots
            );
            continue;
        }
        for sr in &n.slots {
            if matches!(sr.tag, VTag::Importing(_)) {
                continue;
            }
            for (a, b) in &sr.range_list {
                ensure!(
                    a <= b && *b < SLOTS,
                    "C01:bad-range",
                    "cluster {} node {} has invalid range {}-{}",
                    cl.name,
                    n.address,
                    a,
                    b
                );
                for s in *a..=*b {
                    if owner[s] != NONE {
                        let o = owner[s] as usize;
                        fail!(
                            "C01:slot-owned-twice",
                            "cluster {} epoch {}: slot {} owned by node {} and node {}",
                            cl.name,
                            cl.epoch,
                            s,
                            cl.nodes[o].address,
                            n.address
                        );
                    }
                    owner[s] = ni as u16;
                }
            }
        }
    }
    for (s, o) in owner.iter().enumerate() {
        if *o == NONE {
            fail!(
                "C01:slot-unowned",
                "cluster {} epoch {}: slot {} has no owner",
                cl.name,
                cl.epoch,
                s
            );
        }
    }
    Ok(owner)
}

/// clause (3): migrating/importing twins
pub fn check_twins(cl: &VCluster) -> Result<usize, Fail> {
    let mut migrating: Vec<(&VNode, &VSlotRange, &VMeta)> = vec![];
    let mut importing: Vec<(&VNode, &VSlotRange, &VMeta)> = vec![];
    for n in &cl.nodes {
        for sr in &n.slots {
            match &sr.tag {
                VTag::Migrating(m) => migrating.push((n, sr, m)),
                VTag::Importing(m) => importing.push((n, sr, m)),
                VTag::None => {}
            }
        }
    }
    for (n, sr, m) in &migrating {
        ensure!(
            n.address == m.src_node_address && n.proxy_address == m.src_proxy_address,
            "C01:migrating-not-on-src",
            "cluster {}: migrating range {:?} sits on {}@{} but names source {}@{}",
            cl.name,
            sr.range_list,
            n.address,
            n.proxy_address,
            m.src_node_address,
            m.src_proxy_address
        );
        let twins: Vec<_> = importing
            .iter()
            .filter(|(_, isr, im)| isr.range_list == sr.range_list && im == m)
            .collect();
        ensure!(
            twins.len() == 1,
            "C01:twin-count",
            "cluster {} epoch {}: migrating range {:?} (meta {:?}) has {} importing twins; importing ranges present: {:?}",
            cl.name,
            cl.epoch,
            sr.range_list,
            m,
            twins.len(),
            importing.iter().map(|(n, s, m)| (&n.address, &s.range_list, *m)).collect::<Vec<_>>()
        );
        let (tn, _, _) = twins[0];
        ensure!(
            tn.address == m.dst_node_address && tn.proxy_address == m.dst_proxy_address,
            "C01:twin-not-on-dst",
            "cluster {}: importing twin of {:?} sits on {}@{} but destination is {}@{}",
            cl.name,
            sr.range_list,
            tn.address,
            tn.proxy_address,
            m.dst_node_address,
            m.dst_proxy_address
        );
        ensure!(
            tn.is_master(),
            "C01:twin-on-replica",
            "cluster {}: importing twin of {:?} sits on replica {}",
            cl.name,
            sr.range_list,
            tn.address
        );
    }
    for (n, sr, m) in &importing {
        let c = migrating
            .iter()
            .filter(|(_, msr, mm)| msr.range_list == sr.range_list && mm == m)
            .count();
        ensure!(
            c == 1,
            "C01:orphan-importing",
            "cluster {} epoch {}: importing range {:?} on {} (meta {:?}) has {} migrating twins",
            cl.name,
            cl.epoch,
            sr.range_list,
            n.address,
            m,
            c
        );
    }
    Ok(migrating.len())
}

pub fn check_cluster_view(cl: &VCluster) -> Result<(usize, Vec<u16>), Fail> {
    let o = owner_array(cl)?;
    Ok((check_twins(cl)?, o))
}

/// clause (5): the per-proxy view is the projection of the cluster view
pub fn check_proxy_view(p: &VProxy, cl: &VCluster, owners: &[u16]) -> Result<(), Fail> {
    ensure!(
        p.epoch == cl.epoch,
        "C01:proxy-view-epoch",
        "proxy view {} epoch {} != cluster view epoch {}",
        p.address,
        p.epoch,
        cl.epoch
    );
    let own: Vec<&VNode> = cl.nodes.iter().filter(|n| n.proxy_address == p.address).collect();
    ensure!(
        own.len() == p.nodes.len() && own.iter().zip(p.nodes.iter()).all(|(a, b)| *a == b),
        "C01:proxy-view-nodes",
        "proxy view {}: nodes {:?} differ from the cluster view's {:?}",
        p.address,
        p.nodes,
        own
    );
    // proxy-level owner arrays from both views
    let mut names: Vec<String> = vec![p.address.clone()];
    let mut from_proxy: Vec<Option<u8>> = vec![None; SLOTS];
    fn mark(
        view: &str,
        epoch: u64,
        names: &[String],
        who: usize,
        sr: &VSlotRange,
        arr: &mut [Option<u8>],
    ) -> Result<(), Fail> {
        if matches!(sr.tag, VTag::Importing(_)) {
            return Ok(());
        }
        for (a, b) in &sr.range_list {
            ensure!(a <= b && *b < SLOTS, "C01:bad-range", "proxy view {}: invalid range {}-{}", view, a, b);
            for s in *a..=*b {
                if let Some(o) = arr[s] {
                    fail!(
                        "C01:proxy-view-slot-twice",
                        "proxy view {} epoch {}: slot {} listed for {} and {}",
                        view,
                        epoch,
                        s,
                        names[o as usize],
                        names[who]
                    );
                }
                arr[s] = Some(who as u8);
            }
        }
        Ok(())
    }
    for n in &p.nodes {
        if !n.is_master() {
            ensure!(n.slots.is_empty(), "C01:replica-owns-slots", "proxy view {}: replica {} has slots", p.address, n.address);
        }
        for sr in &n.slots {
            mark(&p.address, p.epoch, &names, 0, sr, &mut from_proxy)?;
        }
    }
    for peer in &p.peers {
        ensure!(
            peer.proxy_address != p.address,
            "C01:peer-is-self",
            "proxy view {} lists itself as a peer",
            p.address
        );
        let who = match names.iter().position(|n| *n == peer.proxy_address) {
            Some(i) => i,
            None => {
                names.push(peer.proxy_address.clone());
                names.len() - 1
            }
        };
        for sr in &peer.slots {
            mark(&p.address, p.epoch, &names, who, sr, &mut from_proxy)?;
        }
    }
    for s in 0..SLOTS {
        let expect = &cl.nodes[owners[s] as usize].proxy_address;
        match from_proxy[s].map(|i| names[i as usize].as_str()) {
            Some(w) if w == expect => {}
            other => fail!(
                "C01:proxy-view-owner",
                "proxy view {} epoch {}: slot {} is listed for {:?}, cluster view says {}",
                p.address,
                p.epoch,
                s,
                other,
                expect
            ),
        }
    }
    // importing ranges: multiset of (proxy, range, meta) equal in both views
    let mut a: Vec<(String, VSlotRange)> = vec![];
    for n in &p.nodes {
        for sr in &n.slots {
            if matches!(sr.tag, VTag::Importing(_) | VTag::Migrating(_)) {
                a.push((p.address.clone(), sr.clone()));
            }
        }
    }
    for peer in &p.peers {
        for sr in &peer.slots {
            if matches!(sr.tag, VTag::Importing(_) | VTag::Migrating(_)) {
                a.push((peer.proxy_address.clone(), sr.clone()));
            }
        }
    }
    let mut b: Vec<(String, VSlotRange)> = vec![];
    for n in &cl.nodes {
        for sr in &n.slots {
            if matches!(sr.tag, VTag::Importing(_) | VTag::Migrating(_)) {
                b.push((n.proxy_address.clone(), sr.clone()));
            }
        }
    }
    a.sort();
    b.sort();
    ensure!(
        a == b,
        "C01:proxy-view-migrations",
        "proxy view {}: migration-tagged ranges {:?} differ from the cluster view's {:?}",
        p.address,
        a,
        b
    );
    Ok(())
}

pub fn check_views(v: &Views, obs: &mut Obs) -> Result<(), Fail> {
    let mut owners: BTreeMap<&str, Vec<u16>> = BTreeMap::new();
    for (name, cl) in &v.clusters {
        let (nmig, o) = check_cluster_view(cl)?;
        owners.insert(name.as_str(), o);
        let st = &v.store.clusters[name];
        let pending = st.pending_migrations();
        if nmig > 0 {
            obs.nontrivial = true;
            obs.class("state:migrating");
        }
        if pending > nmig {
            obs.nontrivial = true;
            obs.class("state:limit-defers-migration");
        }
        if st.chunks.iter().any(|c| c.role_position != "Normal") {
            obs.nontrivial = true;
            obs.class("state:non-normal-chunk");
        }
        if pending > 0 && st.chunks.iter().any(|c| c.role_position != "Normal") {
            obs.class("state:migrating+non-normal-chunk");
        }
    }
    for (addr, p) in &v.proxies {
        match &p.cluster_name {
            Some(cn) => {
                let (cl, o) = match (v.clusters.get(cn), owners.get(cn.as_str())) {
                    (Some(c), Some(o)) => (c, o),
                    _ => fail!("C01:proxy-view-cluster", "proxy view {} names cluster {} which is not served", addr, cn),
                };
                check_proxy_view(p, cl, o)?;
            }
            None => {
                ensure!(
                    p.peers.is_empty() && p.nodes.iter().all(|n| n.slots.is_empty()),
                    "C01:free-proxy-has-slots",
                    "free proxy {} is served with slots/peers",
                    addr
                );
            }
        }
    }
    Ok(())
}

struct C01Oracle;

impl Oracle for C01Oracle {
    fn init(&mut self, _cfg: &BrokerCfg, v: &Views, obs: &mut Obs) -> Result<(), Fail> {
        check_views(v, obs)
    }
    fn step(&mut self, st: &Step, obs: &mut Obs) -> Result<(), Fail> {
        if st.post.clusters == st.pre.clusters && st.post.proxies == st.pre.proxies {
            return Ok(()); // nothing served changed (e.g. a refused request)
        }
        check_views(st.post, obs)
    }
}

pub fn check_case(case: &Case, obs: &mut Obs) -> Result<(), Fail> {
    obs.class(format!("cfg:limit={}", case.cfg.migration_limit));
    if case.cfg.ordered {
        obs.class("cfg:ordered");
    }
    run_history(case, &mut C01Oracle, obs)
}

pub const RULE: &str = "generated histories of broker admin operations (proptest vec(op,0..N) + interpreter, operands picked from the current state) over generated host layouts, migration_limit in {0,1,2,3}, ordered mode on/off; partition/twin/projection predicate evaluated on the cluster view and every per-proxy view after EVERY step; non-trivial = some visited state has a pending migration, a limit-deferred migration or a non-Normal chunk; distinct = hash of the generated case";

pub fn run(ctx: &Ctx, findings: &Findings) -> PropReport {
    let mut subs = vec![];
    if let Some(path) = &ctx.replay {
        let v: serde_json::Value = serde_json::from_str(&std::fs::read_to_string(path).expect("replay file")).expect("json");
        for name in ["history", "enumerated"] {
            if let Some(r) = replay_case::<Case>(ctx, findings, name, &v, &check_case) {
                subs.push(r);
            }
        }
    } else {
        let n = ctx.cases(20000, 400000);
        subs.push(drive(ctx, findings, "history", RULE, n, || case_strategy(ctx.tier.pick(14, 22)), &check_case));
        subs.push(drive_enum(ctx, findings, "enumerated", crate::engines::brokersim::RULE_ENUM, crate::engines::brokersim::enumerated_cases(ctx.tier.pick(3, 4)), true, &check_case));
    }
    let _ = BTreeMap::<u8, u8>::new();
    PropReport {
        level: "exploration",
        subs,
        assumptions: vec![
            "views are read through MemBrokerService (the object behind every HTTP handler), not through HTTP".into(),
            "the configured migration_limit is fixed per history (generated per case)".into(),
        ],
        extra: Default::default(),
    }
}
