//! C10 - scaling completes to a balanced full partition and frees only empty chunks.
use crate::engines::brokersim::*;
use crate::fw::*;
use crate::{ensure, fail};
use std::collections::BTreeMap;

fn slots_of(sr: &Option<VSlotRange>) -> usize {
    sr.as_ref()
        .map(|s| s.range_list.iter().map(|(a, b)| b - a + 1).sum())
        .unwrap_or(0)
}

#[derive(Default)]
pub struct C10Oracle {
    /// per cluster: what the running scaling operation must end in
    goal: BTreeMap<String, Goal>,
    links_done: u32,
    commits_in_link: u32,
    failovers_in_link: u32,
}

#[derive(Debug, Clone)]
enum Goal {
    /// all chunks own slots
    Out,
    /// exactly the first n chunks own slots
    In(usize),
}

fn check_quiescent(c: &VClusterStore, info: Option<&VInfo>, goal: Option<&Goal>) -> Result<(), Fail> {
    // all 16384 slots stable
    let mut counts = vec![];
    let mut total = 0;
    for ch in &c.chunks {
        for part in 0..2 {
            let n = slots_of(&ch.stable_slots[part]);
            counts.push(n);
            total += n;
            if let Some(sr) = &ch.stable_slots[part] {
                ensure!(
                    matches!(sr.tag, VTag::None),
                    "C10:stable-slot-tagged",
                    "cluster {}: stable slots carry a migration tag after completion",
                    c.name
                );
            }
        }
    }
    ensure!(
        total == 16384,
        "C10:not-full-partition",
        "cluster {}: after the last commit {} slots are stable (per master: {:?})",
        c.name,
        total,
        counts
    );
    let owning: Vec<usize> = counts.iter().cloned().filter(|n| *n > 0).collect();
    let (mx, mn) = (owning.iter().max().unwrap_or(&0), owning.iter().min().unwrap_or(&0));
    ensure!(
        mx - mn <= 1,
        "C10:unbalanced",
        "cluster {}: after the last commit master slot counts differ by more than one: {:?}",
        c.name,
        counts
    );
    // slot-less chunks are exactly a suffix
    let with: Vec<bool> = c.chunks.iter().map(|ch| ch.stable_slots.iter().any(|s| s.is_some())).collect();
    let first_empty = with.iter().position(|w| !*w).unwrap_or(with.len());
    ensure!(
        with[first_empty..].iter().all(|w| !*w),
        "C10:empty-chunks-not-trailing",
        "cluster {}: slot-less chunks are not the trailing ones: {:?}",
        c.name,
        with
    );
    match goal {
        Some(Goal::Out) => ensure!(
            first_empty == c.chunks.len(),
            "C10:scale-out-left-empty-chunks",
            "cluster {}: scale-out completed but {} chunk(s) own no slots",
            c.name,
            c.chunks.len() - first_empty
        ),
        Some(Goal::In(n)) => ensure!(
            first_empty == *n,
            "C10:scale-in-wrong-chunks",
            "cluster {}: scale-in to {} chunks completed but {} chunks own slots ({:?})",
            c.name,
            n,
            first_empty,
            with
        ),
        None => {}
    }
    if let Some(i) = info {
        ensure!(
            i.node_number_with_slots == first_empty * 4 && i.node_number == c.chunks.len() * 4 && !i.is_migrating,
            "C10:cluster-info-disagrees",
            "cluster {}: info {:?} disagrees with the snapshot ({} chunks, {} with slots)",
            c.name,
            i,
            c.chunks.len(),
            first_empty
        );
    }
    Ok(())
}

impl Oracle for C10Oracle {
    fn step(&mut self, st: &Step, obs: &mut Obs) -> Result<(), Fail> {
        let pre = &st.pre.store;
        let post = &st.post.store;
        if let ROp::Failover { .. } = st.rop {
            self.failovers_in_link += 1;
        }
        // (1) requests refused while a migration is running
        if let Some(name) = st.rop.cluster() {
            if let Some(pc) = pre.clusters.get(name) {
                let guarded = matches!(
                    st.rop,
                    ROp::AddNodes { .. }
                        | ROp::ScaleUp { .. }
                        | ROp::Migrate { .. }
                        | ROp::ScaleDown { .. }
                        | ROp::DeleteFree { .. }
                        | ROp::AutoScale { .. }
                        | ROp::Config { .. }
                );
                if pc.is_migrating() && guarded {
                    obs.class(format!("refused-while-migrating:{}", st.rop.kind()));
                    ensure!(
                        st.res.is_err(),
                        "C10:accepted-while-migrating",
                        "{:?} was accepted while cluster {} has a running migration",
                        st.rop,
                        name
                    );
                    ensure!(
                        pre.without_global_epoch() == post.without_global_epoch(),
                        "C10:refusal-changed-state",
                        "{:?} was refused during a migration but changed the metadata",
                        st.rop
                    );
                }
            }
        }
        // (2) chunks are released only when they own nothing
        for (name, pc) in &pre.clusters {
            let Some(qc) = post.clusters.get(name) else { continue };
            if matches!(st.rop, ROp::RemoveCluster { .. } | ROp::AddCluster { .. }) {
                continue;
            }
            if matches!(st.rop, ROp::Failover { .. }) {
                continue; // a replacement changes node addresses, never the chunk list
            }
            // chunks are identified by their node addresses
            let kept: Vec<&[String; 4]> = qc.chunks.iter().map(|c| &c.node_addresses).collect();
            let mut released = 0;
            for ch in &pc.chunks {
                if !kept.contains(&&ch.node_addresses) {
                    released += 1;
                    ensure!(
                        !ch.has_any_slots(),
                        "C10:released-chunk-owned-slots",
                        "{:?} released chunk {:?} of cluster {} which owned stable={:?} migrating={:?}",
                        st.rop,
                        ch.proxy_addresses,
                        name,
                        ch.stable_slots,
                        ch.migrating_slots
                    );
                }
            }
            if released > 0 {
                obs.class("chunks-released");
                if matches!(st.rop, ROp::DeleteFree { .. }) && st.res.is_ok() {
                    let remaining: Vec<&VChunk> = pc.chunks.iter().filter(|c| c.has_any_slots()).collect();
                    ensure!(
                        remaining.len() == qc.chunks.len() && remaining.iter().zip(qc.chunks.iter()).all(|(a, b)| *a == b),
                        "C10:delete-free-removed-wrong-chunks",
                        "delete-free-nodes on {} did not remove exactly the slot-less chunks",
                        name
                    );
                }
            }
            if let (ROp::DeleteFree { name: n }, Ok(_)) = (st.rop, st.res) {
                if n == name {
                    ensure!(
                        qc.chunks.iter().all(|c| c.has_any_slots()),
                        "C10:delete-free-left-empty-chunk",
                        "delete-free-nodes on {} succeeded but a slot-less chunk remains",
                        name
                    );
                }
            }
        }
        // (3) goals
        match (st.rop, st.res) {
            (ROp::Migrate { name }, Ok(_)) => {
                self.goal.insert(name.clone(), Goal::Out);
                self.commits_in_link = 0;
                self.failovers_in_link = 0;
                ensure!(
                    post.clusters[name].is_migrating(),
                    "C10:migrate-started-nothing",
                    "migrate_slots on {} succeeded but no migration is pending",
                    name
                );
            }
            (ROp::ScaleDown { name, nodes }, Ok(_)) => {
                self.goal.insert(name.clone(), Goal::In(nodes / 4));
                self.commits_in_link = 0;
                self.failovers_in_link = 0;
            }
            (ROp::AutoScale { name, nodes }, _) => {
                // an ACCEPTED request that leaves nothing pending means the cluster already is a balanced
                // cluster of the requested size (a half-done scale-out must be completed by the retry, not skipped)
                if let (Ok(_), Some(qc)) = (st.res, post.clusters.get(name)) {
                    if !qc.is_migrating() {
                        let with_slots = qc.chunks.iter().filter(|c| c.has_any_slots()).count();
                        ensure!(
                            with_slots * 4 == *nodes && qc.chunks.len() * 4 == *nodes,
                            "C10:auto-scale-accepted-but-not-performed",
                            "auto_scale_node_number({}, {}) was accepted and no migration is pending, but the cluster has {} nodes of which {} own slots",
                            name,
                            nodes,
                            qc.chunks.len() * 4,
                            with_slots * 4
                        );
                    }
                }
                // the auto API may have started either direction
                if let (Some(pc), Some(qc)) = (pre.clusters.get(name), post.clusters.get(name)) {
                    if !pc.is_migrating() && qc.is_migrating() {
                        let with_slots = qc.chunks.iter().filter(|c| c.stable_slots.iter().any(|s| s.is_some())).count();
                        if nodes / 4 < with_slots || qc.chunks.iter().any(|c| c.stable_slots.iter().all(|s| s.is_none()) && c.migrating_slots.iter().any(|m| m.iter().any(|x| x.is_migrating))) {
                            self.goal.insert(name.clone(), Goal::In(nodes / 4));
                        } else {
                            self.goal.insert(name.clone(), Goal::Out);
                        }
                        self.commits_in_link = 0;
                        self.failovers_in_link = 0;
                    }
                }
            }
            (ROp::RemoveCluster { name }, Ok(_)) | (ROp::AddCluster { name, .. }, Ok(_)) => {
                self.goal.remove(name);
            }
            _ => {}
        }
        // (4) progress: a pending migration is always served, commits of served tasks succeed
        for (name, qc) in &post.clusters {
            let pending = qc.pending_migrations();
            if pending > 0 {
                let served = st.post.clusters[name]
                    .nodes
                    .iter()
                    .flat_map(|n| n.slots.iter())
                    .filter(|s| matches!(s.tag, VTag::Migrating(_)))
                    .count();
                ensure!(
                    served >= 1 && served <= pending,
                    "C10:no-migration-served",
                    "cluster {} has {} pending migrations but the served view (limit {}) contains {}",
                    name,
                    pending,
                    st.cfg.migration_limit,
                    served
                );
            }
        }
        if let ROp::Commit { name, stale: None, slot_range } = st.rop {
            let before = pre.clusters.get(name).map(|c| c.pending_migrations()).unwrap_or(0);
            let after = post.clusters.get(name).map(|c| c.pending_migrations()).unwrap_or(0);
            match st.res {
                Ok(_) => {
                    self.commits_in_link += 1;
                    // committing a migration hands its range to the migration's destination node
                    if let (Some(meta), Some(cl)) = (slot_range.tag.meta(), st.post.clusters.get(name)) {
                        for (a, b) in &slot_range.range_list {
                            for probe in [*a, *b] {
                                let owner = cl.nodes.iter().find(|n| {
                                    n.is_master()
                                        && n.slots.iter().any(|s| matches!(s.tag, VTag::None) && s.range_list.iter().any(|(x, y)| probe >= *x && probe <= *y))
                                });
                                ensure!(
                                    owner.map(|n| n.address.as_str()) == Some(meta.dst_node_address.as_str()),
                                    "C10:commit-moved-slots-to-wrong-node",
                                    "commit of migration {:?} (destination {}@{}) succeeded, but slot {} is now stable on {:?}",
                                    slot_range.range_list,
                                    meta.dst_node_address,
                                    meta.dst_proxy_address,
                                    probe,
                                    owner.map(|n| n.address.clone())
                                );
                            }
                        }
                    }
                    ensure!(
                        after + 1 == before,
                        "C10:commit-progress",
                        "commit of {:?} on {} succeeded but pending migrations went {} -> {}",
                        slot_range.range_list,
                        name,
                        before,
                        after
                    );
                }
                Err(code) => fail!(
                    "C10:served-task-not-committable",
                    "commit of served migration {:?} (epoch {:?}) on {} was refused with {}",
                    slot_range.range_list,
                    slot_range.tag.meta().map(|m| m.epoch),
                    name,
                    code
                ),
            }
            // (5) completion
            if before > 0 && after == 0 {
                let qc = &post.clusters[name];
                let goal = self.goal.get(name).cloned();
                check_quiescent(qc, st.post.infos.get(name), goal.as_ref())?;
                self.links_done += 1;
                obs.class(match goal {
                    Some(Goal::Out) => "completed:scale-out",
                    Some(Goal::In(_)) => "completed:scale-in",
                    None => "completed:unknown-goal",
                });
                if self.failovers_in_link > 0 {
                    obs.class("completed:with-interleaved-failover");
                    obs.nontrivial = true;
                }
                if self.commits_in_link >= 2 {
                    obs.class("completed:multi-commit");
                }
                if self.links_done >= 2 {
                    obs.class("chain>=2-links");
                    obs.nontrivial = true;
                }
                if st.cfg.migration_limit > 0 && self.commits_in_link as u64 > st.cfg.migration_limit {
                    obs.class("completed:limit-unlocked-later-migrations");
                    obs.nontrivial = true;
                }
            }
        }
        Ok(())
    }
}

pub fn check_case(case: &Case, obs: &mut Obs) -> Result<(), Fail> {
    obs.class(format!("cfg:limit={}", case.cfg.migration_limit));
    run_history(case, &mut C10Oracle::default(), obs)
}

// A generator centred on scaling chains: create, then several resize requests each
// followed by commits in generated order with interleaved failovers.
pub fn chain_strategy() -> impl proptest::strategy::Strategy<Value = Case> {
    use proptest::prelude::*;
    let commit = || (any::<u16>(), any::<bool>()).prop_map(|(i, importing)| Op::Commit { c: 0, i, importing });
    let inter = move || {
        prop_oneof![
            14 => commit(),
            2 => any::<u16>().prop_map(|p| Op::Failover { p }),
            1 => Just(Op::Balance { c: 0 }),
            1 => Just(Op::Migrate { c: 0 }),
            1 => (any::<u8>()).prop_map(|k| Op::AddNodesSmart { c: 0, k }),
            1 => (any::<u8>()).prop_map(|k| Op::ScaleDownSmart { c: 0, k }),
            1 => Just(Op::DeleteFree { c: 0 }),
            1 => (0u8..7, 0u8..6).prop_map(|(k, v)| Op::Config { c: 0, k, v }),
            1 => (any::<u16>(), 0u8..5).prop_map(|(i, kind)| Op::CommitStale { c: 0, i, kind }),
            1 => any::<u16>().prop_map(|p| Op::ReAdd { p }),
        ]
    };
    let link = move || {
        (any::<bool>(), any::<u8>(), prop::collection::vec(inter(), 4..40)).prop_map(|(up, k, mut inter)| {
            let mut v = if up {
                vec![Op::AddNodesSmart { c: 0, k }, Op::Migrate { c: 0 }]
            } else {
                vec![Op::ScaleDownSmart { c: 0, k }]
            };
            v.append(&mut inter);
            // drain: enough commits to finish whatever is pending
            for j in 0..24u16 {
                v.push(Op::Commit { c: 0, i: j.wrapping_mul(9973), importing: j % 2 == 0 });
            }
            if !up {
                v.push(Op::DeleteFree { c: 0 });
            }
            v
        })
    };
    (
        prop::collection::vec(prop_oneof![1 => 2u8..=4, 1 => 3u8..=7], 3..=6),
        prop_oneof![2 => Just(0u64), 2 => Just(1u64), 1 => Just(2u64), 1 => Just(3u64)],
        1u8..=4,
        prop::collection::vec(link(), 1..=4),
    )
        .prop_map(|(hosts, migration_limit, chunks, links)| {
            let mut ops = vec![Op::AddCluster { c: 0, nodes: chunks * 4 }];
            for mut l in links {
                ops.append(&mut l);
            }
            Case { cfg: BrokerCfg { hosts, migration_limit, ordered: false, quorum: 1, ttl: 3600 }, ops }
        })
}

pub const RULE: &str = "scaling chains: create a cluster, then 1..4 resize requests (up via add-nodes+migrate, down via migrate-to-scale-down, sizes chosen from the current state) each followed by commits in a generated order with interleaved failovers, balance, refused scale/config requests, stale commits; plus the general C01 histories and the auto-scale API; oracle after EVERY step (refusal while migrating, released chunks were empty, progress) and at every completion (full partition, balance <=1, trailing empty chunks, cluster info); non-trivial = a completed chain with >=2 links, or completion with an interleaved failover, or a limit-unlocked migration; distinct = hash of the generated case";

pub fn run(ctx: &Ctx, findings: &Findings) -> PropReport {
    let mut subs = vec![];
    if let Some(path) = &ctx.replay {
        let v: serde_json::Value = serde_json::from_str(&std::fs::read_to_string(path).expect("replay file")).expect("json");
        for name in ["chains", "history", "enumerated"] {
            if let Some(r) = replay_case::<Case>(ctx, findings, name, &v, &check_case) {
                subs.push(r);
            }
        }
    } else {
        let n = ctx.cases(12000, 240000);
        subs.push(drive(ctx, findings, "chains", RULE, n, chain_strategy, &check_case));
        subs.push(drive(ctx, findings, "history", RULE, n, || case_strategy(ctx.tier.pick(14, 22)), &check_case));
        subs.push(drive_enum(ctx, findings, "enumerated", crate::engines::brokersim::RULE_ENUM, crate::engines::brokersim::enumerated_cases(ctx.tier.pick(3, 4)), true, &check_case));
    }
    PropReport {
        level: "exploration",
        subs,
        assumptions: vec![
            "the error code of a refusal is not part of the oracle (guards are ordered; several codes are refusals)".into(),
            "scale-out through the auto API is exercised up to its PROXY_NOT_SYNC outcome unless proxies answer on loopback".into(),
        ],
        extra: Default::default(),
    }
}
