use crate::fw::*;
pub mod c01;
pub mod c02;
pub mod c03;
pub mod c04;
pub mod c05;
pub mod c06;
pub mod c07;
pub mod c08;
pub mod c09;
pub mod c10;
pub mod c11;
pub mod c12;
pub mod c13;
pub mod c14;
pub mod c15;
pub mod c16;
pub mod c17;
pub mod c19;
pub mod c20;
pub mod dbg;
pub mod c18;

pub fn dispatch(ctx: &Ctx, findings: &Findings) -> Option<PropReport> {
    Some(match ctx.prop.as_str() {
        "C01" => c01::run(ctx, findings),
        "C02" => c02::run_prop(ctx, findings),
        "C03" => c03::run_prop(ctx, findings),
        "C04" => c04::run(ctx, findings),
        "C05" => c05::run(ctx, findings),
        "C06" => c06::run(ctx, findings),
        "C07" => c07::run_prop(ctx, findings),
        "C08" => c08::run(ctx, findings),
        "C09" => c09::run(ctx, findings),
        "C10" => c10::run(ctx, findings),
        "C11" => c11::run(ctx, findings),
        "C12" => c12::run(ctx, findings),
        "C13" => c13::run(ctx, findings),
        "C14" => c14::run(ctx, findings),
        "C15" => c15::run(ctx, findings),
        "C16" => c16::run(ctx, findings),
        "C16-WORKER" => {
            c16::worker_main();
            std::process::exit(0)
        }
        "C17" => c17::run(ctx, findings),
        "C19" => c19::run(ctx, findings),
        "C20" => c20::run_prop(ctx, findings),
        "C18" => c18::run(ctx, findings),
        "DBG" => {
            dbg::run();
            std::process::exit(0)
        }
        _ => return None,
    })
}
