use crate::fw::*;
pub mod c01;

pub fn dispatch(ctx: &Ctx, findings: &Findings) -> Option<PropReport> {
    Some(match ctx.prop.as_str() {
        "C01" => c01::run(ctx, findings),
        _ => return None,
    })
}
