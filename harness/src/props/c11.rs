//! C11 - the pre-switch barrier stops source-side execution and loses nothing.
use crate::engines::sched::{self, Sched};
use crate::fw::*;
use crate::{ensure, fail};
use parking_lot::Mutex;
use proptest::prelude::*;
use serde::{Deserialize, Serialize};
use std::sync::atomic::{AtomicU64, Ordering};
use std::sync::Arc;
use undermoon::protocol::{Resp, RespVec};
use undermoon::proxy::backend::{CmdTask, SenderBackendError};
use undermoon::proxy::blocking::{BlockingCmdTaskSender, BlockingHint, BlockingHintTask, BlockingMap, CounterTask, TaskBlockingController, TaskBlockingControllerFactory, TaskBlockingQueueSenderFactory};
use undermoon::proxy::command::{CommandError, CommandResult};
use undermoon::proxy::sender::{CmdTaskSender, CmdTaskSenderFactory};
use undermoon::proxy::slowlog::TaskEvent;

#[derive(Debug, Clone, Serialize, Deserialize)]
pub struct SCase {
    /// per sender thread: hints of its commands (0 = NotBlocking (foreign slot), 1 = migration command)
    pub senders: Vec<Vec<u8>>,
    pub controllers: u8,
    /// idle points a controller spends between BARRIER-UP and BARRIER-DOWN
    pub hold_points: u8,
    pub schedule: Vec<u8>,
    /// free-running: the threads race for real (no scheduler, the product's hook points are inert)
    #[serde(default)]
    pub free: bool,
    /// earlier lives of the backend address: so many times a queue and a sender were created for it and
    /// all references dropped before the ones under test are created (a proxy leaving and rejoining)
    #[serde(default)]
    pub reuse: u8,
}

pub fn strategy() -> impl Strategy<Value = SCase> {
    (
        prop::collection::vec(prop::collection::vec(prop_oneof![1 => Just(0u8), 3 => Just(1u8)], 1..4), 1..=3),
        1u8..=2,
        0u8..4,
        prop::collection::vec(any::<u8>(), 0..160),
        prop_oneof![3 => Just(0u8), 1 => Just(1u8), 1 => Just(2u8)],
    )
        .prop_map(|(senders, controllers, hold_points, schedule, reuse)| SCase { senders, controllers, hold_points, schedule, free: false, reuse })
}

/// free-running races: no schedule, real threads released together
pub fn free_strategy() -> impl Strategy<Value = SCase> {
    (prop::collection::vec(prop::collection::vec(prop_oneof![1 => Just(0u8), 3 => Just(1u8)], 1..4), 1..=3), prop_oneof![1 => Just(1u8), 3 => Just(2u8)], 0u8..3, any::<u8>(), prop_oneof![3 => Just(0u8), 1 => Just(1u8)])
        .prop_map(|(senders, controllers, hold_points, tag, reuse)| SCase { senders, controllers, hold_points, schedule: vec![tag], free: true, reuse })
}

#[derive(Debug, Clone, PartialEq)]
enum Ev {
    Inner(u32),
    Redispatch(u32),
    Exhausted(u32),
    BarrierUp(usize),
    BarrierDown(usize),
    Released(usize),
}

#[derive(Default)]
struct Log {
    clock: AtomicU64,
    events: Mutex<Vec<(u64, Ev)>>,
}

impl Log {
    fn push(&self, e: Ev) {
        let t = self.clock.fetch_add(1, Ordering::SeqCst);
        self.events.lock().push((t, e));
    }
}

pub struct TTask {
    id: u32,
}

impl CmdTask for TTask {
    type Pkt = RespVec;
    type TaskType = u32;
    type Context = u32;
    fn get_key(&self) -> Option<&[u8]> {
        None
    }
    fn get_slot(&self) -> Option<usize> {
        None
    }
    fn set_result(self, _result: CommandResult<RespVec>) {}
    fn get_packet(&self) -> RespVec {
        Resp::Simple(b"x".to_vec())
    }
    fn get_type(&self) -> u32 {
        0
    }
    fn get_context(&self) -> u32 {
        0
    }
    fn set_resp_result(self, _result: Result<RespVec, CommandError>) {}
    fn log_event(&mut self, _event: TaskEvent) {}
}

/// "handed to the source Redis": records the event and keeps the task alive until the completer drops it
struct InnerSender {
    log: Arc<Log>,
    in_flight: Arc<Mutex<Vec<CounterTask<TTask>>>>,
}

impl CmdTaskSender for InnerSender {
    type Task = CounterTask<TTask>;
    fn send(&self, task: Self::Task) -> Result<(), SenderBackendError<Self::Task>> {
        // the id is read through the wrapper's accessor-free API: CounterTask exposes into_inner only,
        // so the id is tracked by the harness thread-locally
        let id = CURRENT_ID.with(|c| c.get());
        self.log.push(Ev::Inner(id));
        self.in_flight.lock().push(task);
        Ok(())
    }
}

thread_local! {
    static CURRENT_ID: std::cell::Cell<u32> = const { std::cell::Cell::new(0) };
}

struct InnerFactory {
    log: Arc<Log>,
    in_flight: Arc<Mutex<Vec<CounterTask<TTask>>>>,
}

impl CmdTaskSenderFactory for InnerFactory {
    type Sender = InnerSender;
    fn create(&self, _address: String) -> Self::Sender {
        InnerSender { log: self.log.clone(), in_flight: self.in_flight.clone() }
    }
}

/// re-dispatch of commands that were queued during blocking
struct RetrySender {
    log: Arc<Log>,
}

impl CmdTaskSender for RetrySender {
    type Task = TTask;
    fn send(&self, task: Self::Task) -> Result<(), SenderBackendError<Self::Task>> {
        self.log.push(Ev::Redispatch(task.id));
        Ok(())
    }
}

impl BlockingCmdTaskSender for RetrySender {}

pub fn check(case: &SCase, obs: &mut Obs) -> Result<(), Fail> {
    let log = Arc::new(Log::default());
    let in_flight = Arc::new(Mutex::new(vec![]));
    let map = Arc::new(BlockingMap::new(InnerFactory { log: log.clone(), in_flight: in_flight.clone() }, Arc::new(RetrySender { log: log.clone() })));
    let addr = "127.0.0.1:7001".to_string();
    let sender_factory = TaskBlockingQueueSenderFactory::new(map.clone());
    for _ in 0..case.reuse {
        let q = map.create(addr.clone());
        let s = sender_factory.create(addr.clone());
        drop(s);
        drop(q);
    }
    if case.reuse > 0 {
        obs.class("address-reused");
    }
    let queue = map.create(addr.clone());
    let nsend = case.senders.len();
    let nctrl = case.controllers as usize;
    let total_threads = nsend + nctrl + 1;
    let sched = if case.free { Sched::new_free(total_threads) } else { Sched::new(total_threads, case.schedule.clone()) };
    let done_senders = Arc::new(AtomicU64::new(0));
    let done_ctrl = Arc::new(AtomicU64::new(0));
    let mut bodies: Vec<Box<dyn FnOnce(usize) + Send>> = vec![];
    let mut next_id = 1u32;
    let mut total_cmds = 0usize;
    for hints in &case.senders {
        let sender = sender_factory.create(addr.clone());
        let queue = queue.clone();
        let log = log.clone();
        let hints = hints.clone();
        let base = next_id;
        next_id += hints.len() as u32;
        total_cmds += hints.len();
        let sched2 = sched.clone();
        let done = done_senders.clone();
        bodies.push(Box::new(move |me| {
            for (j, h) in hints.iter().enumerate() {
                let id = base + j as u32;
                CURRENT_ID.with(|c| c.set(id));
                let mut task = TTask { id };
                let mut sent = false;
                for _attempt in 0..4 {
                    // what RedisScanMigratingTask::send does while the source is in PreBlocking/PreSwitch:
                    sched2.point(me, "sender:before_hint");
                    let hint = if *h == 0 {
                        BlockingHint::NotBlocking
                    } else {
                        let st = queue.get_blocking_state();
                        if st.blocking {
                            BlockingHint::Blocking
                        } else {
                            BlockingHint::NotBlockingInMigration(st.term)
                        }
                    };
                    sched2.point(me, "sender:before_send");
                    match sender.send(BlockingHintTask::new(task, hint)) {
                        Ok(()) => {
                            sent = true;
                            break;
                        }
                        Err(SenderBackendError::Retry(t)) => {
                            task = t.into_inner();
                        }
                        Err(_) => {
                            sent = true; // answered with an error by the queue itself
                            log.push(Ev::Exhausted(id));
                            break;
                        }
                    }
                    // (the compiler needs `task` re-bound for the next iteration)
                    if false {
                        break;
                    }
                }
                if !sent {
                    log.push(Ev::Exhausted(id));
                }
            }
            done.fetch_add(1, Ordering::SeqCst);
        }));
    }
    let rendezvous = Arc::new(AtomicU64::new(0));
    for c in 0..nctrl {
        let queue = queue.clone();
        let log = log.clone();
        let sched2 = sched.clone();
        let hold = case.hold_points;
        let done = done_ctrl.clone();
        let ds = done_senders.clone();
        let inf = in_flight.clone();
        let rendezvous = rendezvous.clone();
        bodies.push(Box::new(move |me| {
            sched2.point(me, "ctrl:before_start");
            let handle = queue.start_blocking();
            let mut idle_polls = 0u32;
            loop {
                if queue.blocking_done() {
                    break;
                }
                sched2.point(me, "ctrl:poll");
                if sched2.runaway() {
                    break;
                }
                if sched2.is_free() {
                    // every sender returned and nothing is in flight: the counter cannot change any more
                    if ds.load(Ordering::SeqCst) as usize == nsend && inf.lock().is_empty() {
                        idle_polls += 1;
                        if idle_polls > 10_000 {
                            break;
                        }
                    }
                    std::thread::yield_now();
                }
            }
            log.push(Ev::BarrierUp(c));
            for _ in 0..hold {
                sched2.point(me, "ctrl:holding");
            }
            log.push(Ev::BarrierDown(c));
            if sched2.is_free() {
                // free-running: the controllers lift their blocks as simultaneously as real threads can
                rendezvous.fetch_add(1, Ordering::SeqCst);
                let mut spins = 0u32;
                while (rendezvous.load(Ordering::SeqCst) as usize) < nctrl && spins < 200_000 {
                    std::hint::spin_loop();
                    spins += 1;
                }
            }
            drop(handle);
            log.push(Ev::Released(c));
            done.fetch_add(1, Ordering::SeqCst);
        }));
    }
    {
        // the backend completer: finishes commands that were handed to Redis
        let in_flight = in_flight.clone();
        let sched2 = sched.clone();
        let ds = done_senders.clone();
        let dc = done_ctrl.clone();
        bodies.push(Box::new(move |me| loop {
            let t = in_flight.lock().pop();
            match t {
                Some(task) => {
                    sched2.point(me, "completer:before_complete");
                    drop(task);
                }
                None => {
                    if ds.load(Ordering::SeqCst) as usize == nsend && dc.load(Ordering::SeqCst) as usize == nctrl {
                        if in_flight.lock().is_empty() {
                            break;
                        }
                    }
                    if sched2.is_free() {
                        std::thread::yield_now();
                    }
                    sched2.point(me, "completer:idle");
                    if sched2.runaway() {
                        break;
                    }
                }
            }
        }));
    }
    sched::run(&sched, bodies);
    if sched.runaway() {
        obs.class("inconclusive:step-limit");
        return Ok(());
    }
    let events = log.events.lock().clone();
    let trace = sched.trace();
    let show = || {
        let ev: Vec<String> = events.iter().map(|(t, e)| format!("{}:{:?}", t, e)).collect();
        let tr: Vec<String> = trace.iter().rev().take(60).rev().map(|(s, t, n)| format!("{}:T{}@{}", s, t, n)).collect();
        format!("events: {}\n  last scheduling points: {}", ev.join(" "), tr.join(" "))
    };
    // (1) nothing is handed to the source Redis while a barrier is up
    let mut up = 0i32;
    for (_, e) in &events {
        match e {
            Ev::BarrierUp(_) => up += 1,
            Ev::BarrierDown(_) => up -= 1,
            Ev::Inner(id) if up > 0 => {
                fail!(
                    "C11:command-executed-during-barrier",
                    "command {} was handed to the source Redis while a controller had observed blocking_done() and had not yet lifted blocking\n  {}",
                    id,
                    show()
                );
            }
            _ => {}
        }
    }
    // (2) every command ends in exactly one outcome
    for id in 1..next_id {
        let inner = events.iter().filter(|(_, e)| *e == Ev::Inner(id)).count();
        let redis = events.iter().filter(|(_, e)| *e == Ev::Redispatch(id)).count();
        let exh = events.iter().filter(|(_, e)| *e == Ev::Exhausted(id)).count();
        ensure!(
            inner + redis + exh == 1,
            "C11:command-lost-or-duplicated",
            "command {} ended {} times handed to Redis, {} times re-dispatched, {} times given up (must be exactly one outcome)\n  {}",
            id,
            inner,
            redis,
            exh,
            show()
        );
    }
    // (3) quiescence: nothing queued, no running command
    ensure!(queue.blocking_done(), "C11:running-counter-not-zero", "after quiescence the running-command counter is not zero\n  {}", show());
    let st = queue.get_blocking_state();
    ensure!(!st.blocking, "C11:still-blocking", "after every handle was dropped the queue still reports blocking");
    // re-dispatch happens after the last barrier went down
    let last_down = events.iter().filter(|(_, e)| matches!(e, Ev::BarrierDown(_))).map(|(t, _)| *t).max().unwrap_or(0);
    let queued = events.iter().filter(|(_, e)| matches!(e, Ev::Redispatch(_))).count();
    if queued > 0 {
        obs.class("queued-and-redispatched");
    }
    let _ = last_down;
    // non-trivial: a sender was inside send() while a controller step ran
    let mut in_send: std::collections::BTreeSet<usize> = Default::default();
    let mut overlapped = false;
    for (_, t, name) in &trace {
        if name.starts_with("send:") {
            in_send.insert(*t);
        }
        if *name == "sender:before_hint" {
            in_send.remove(t);
        }
        if (name.starts_with("ctrl:") || name.starts_with("handle_") || name.starts_with("blocking_done")) && !in_send.is_empty() {
            overlapped = true;
        }
    }
    if overlapped {
        obs.nontrivial = true;
        obs.class("controller-step-while-a-sender-is-inside-send");
    }
    if case.free {
        obs.class("free-running");
        if nctrl >= 2 || nsend >= 2 {
            obs.nontrivial = true;
        }
    }
    obs.class(format!("senders:{}", nsend));
    obs.class(format!("controllers:{}", nctrl));
    obs.maximum("steps", sched.steps());
    let _ = total_cmds;
    Ok(())
}

/// bounded exhaustive enumeration for 2 senders (1 command each) and 1 controller: every
/// schedule prefix of the given length over the 4 participants
pub fn exhaustive_cases(len: usize) -> Vec<SCase> {
    let mut out = vec![];
    let n = 4usize; // sender, sender, controller, completer
    let total = n.pow(len as u32);
    for code in 0..total {
        let mut c = code;
        let mut schedule = vec![];
        for _ in 0..len {
            schedule.push(((c % n) * 64 + 1) as u8);
            c /= n;
        }
        out.push(SCase { senders: vec![vec![1], vec![1]], controllers: 1, hold_points: 1, schedule, free: false, reuse: 0 });
    }
    out
}

/// the same for 1 sender (1 command) and 2 controllers (two migrations blocking the same backend):
/// start/stop of blocking race with each other, not only with senders
pub fn exhaustive_cases_two_controllers(len: usize) -> Vec<SCase> {
    let mut out = vec![];
    let n = 4usize; // sender, controller, controller, completer
    let total = n.pow(len as u32);
    for code in 0..total {
        let mut c = code;
        let mut schedule = vec![];
        for _ in 0..len {
            schedule.push(((c % n) * 64 + 1) as u8);
            c /= n;
        }
        out.push(SCase { senders: vec![vec![1]], controllers: 2, hold_points: 0, schedule, free: false, reuse: 0 });
    }
    out
}

pub const RULE: &str = "the REAL BlockingMap / TaskBlockingQueue / TaskBlockingQueueSender / BlockingHandle over two mock senders (inner = handed to the source Redis, keeps the CounterTask alive until a completer thread drops it; retry = re-dispatched), driven by real OS threads under a deterministic cooperative scheduler: the backend address may have had 1..2 earlier lives (queue and sender created and dropped); 1..3 sender threads (1..3 commands each, hint computed like RedisScanMigratingTask::send, Retry recomputed up to 3 times), 1..2 controllers (start_blocking, poll blocking_done, BARRIER-UP, hold, BARRIER-DOWN, drop the handle) and a completer; control changes hands only at the scheduling points compiled into undermoon by hook H3 (before every shared-memory access of proxy/blocking.rs and between the load and the compare-exchange of common/biatomic.rs) and at harness points; the schedule is a generated byte vector (then round robin); [exhaustive] every schedule prefix of length 7 (quick) / 8 (thorough) over 4 participants for 2 senders x 1 command and 1 controller [exhaustive] and for 1 sender and 2 controllers [exhaustive-2ctrl]; oracle over the logically time-stamped event log: no command handed to Redis while a barrier is up, every command ends in exactly one of {handed to Redis once, re-dispatched once, given up}, at quiescence not blocking and no running command; non-trivial = a controller step executed while a sender was between its counter increment/state read/enqueue/re-check; distinct = hash of the case";

pub const RULE_FREE: &str = "[free-running] the same participants and the same event-log oracle WITHOUT the scheduler: 1..3 senders, 1..2 controllers and the completer are real threads released together by a barrier and race freely (the product's hook points are inert), so interleavings inside code that carries no hook point (e.g. a rewritten compare-and-swap loop) are reachable too; sound (a logged event order is a real execution order) but not reproducible: a violation is reported with the observed event log; non-trivial = at least two controllers or two senders; distinct = hash of the case";

pub fn run(ctx: &Ctx, findings: &Findings) -> PropReport {
    let mut subs = vec![];
    CASE_THREADS.store(false, std::sync::atomic::Ordering::Relaxed);
    if let Some(path) = &ctx.replay {
        let v: serde_json::Value = serde_json::from_str(&std::fs::read_to_string(path).expect("replay file")).expect("json");
        for name in ["schedules", "free-running", "exhaustive", "exhaustive-2ctrl"] {
            if let Some(r) = replay_case::<SCase>(ctx, findings, name, &v, &check) {
                subs.push(r);
            }
        }
    } else {
        subs.push(drive(ctx, findings, "schedules", RULE, ctx.cases(12000, 200000), strategy, &check));
        let len = ctx.tier.pick(7, 8);
        subs.push(drive(ctx, findings, "free-running", RULE_FREE, ctx.cases(6000, 100000), free_strategy, &check));
        subs.push(drive_enum(ctx, findings, "exhaustive", RULE, exhaustive_cases(len), true, &check));
        subs.push(drive_enum(ctx, findings, "exhaustive-2ctrl", RULE, exhaustive_cases_two_controllers(ctx.tier.pick(6, 8)), true, &check));
    }
    PropReport {
        level: "fault_enumeration",
        subs,
        assumptions: vec![
            "sequentially consistent interleavings only (all atomics involved are SeqCst); the crossbeam channel internals are trusted".into(),
            "in the scheduled sub-checks a context switch can only happen at a hook point: an access the hooks miss is not pre-empted there; the free-running sub-check races real threads instead (OS scheduling, not enumerated, not reproducible)".into(),
            "the exhaustive sub-check enumerates every schedule PREFIX of the stated length (the remainder runs round robin); it is exhaustive within that bound only".into(),
        ],
        extra: Default::default(),
    }
}
