//! C06 - failover promotes the replica without changing slot ownership.
use crate::engines::brokersim::*;
use crate::fw::*;
use crate::{ensure, fail};
use std::collections::{BTreeMap, BTreeSet};

type Triple = (String, VRanges, &'static str); // (owner node, range list, tag kind)

fn triples(cl: &VCluster) -> BTreeSet<Triple> {
    let mut s = BTreeSet::new();
    for n in &cl.nodes {
        for sr in &n.slots {
            s.insert((n.address.clone(), sr.range_list.clone(), sr.tag.kind()));
        }
    }
    s
}

fn migrations(cl: &VCluster) -> BTreeMap<VRanges, VMeta> {
    let mut m = BTreeMap::new();
    for n in &cl.nodes {
        for sr in &n.slots {
            if let VTag::Migrating(meta) = &sr.tag {
                m.insert(sr.range_list.clone(), meta.clone());
            }
        }
    }
    m
}

/// structure: every master has exactly one replica, on the other proxy of its chunk,
/// with mutual peer records
pub fn check_structure(cl: &VCluster) -> Result<(), Fail> {
    let by_addr: BTreeMap<&str, &VNode> = cl.nodes.iter().map(|n| (n.address.as_str(), n)).collect();
    for n in &cl.nodes {
        ensure!(
            n.repl.peers.len() == 1,
            "C06:peer-count",
            "cluster {}: node {} ({}) has {} replication peers",
            cl.name,
            n.address,
            n.repl.role,
            n.repl.peers.len()
        );
        let peer = &n.repl.peers[0];
        let pn = match by_addr.get(peer.node_address.as_str()) {
            Some(p) => *p,
            None => fail!("C06:peer-unknown", "cluster {}: node {} names peer {} which is not in the cluster", cl.name, n.address, peer.node_address),
        };
        ensure!(
            pn.proxy_address == peer.proxy_address,
            "C06:peer-proxy-mismatch",
            "cluster {}: node {} names peer {}@{} but that node is on {}",
            cl.name,
            n.address,
            peer.node_address,
            peer.proxy_address,
            pn.proxy_address
        );
        ensure!(
            pn.proxy_address != n.proxy_address,
            "C06:peer-on-same-proxy",
            "cluster {}: node {} and its replication peer {} are on the same proxy {}",
            cl.name,
            n.address,
            pn.address,
            n.proxy_address
        );
        ensure!(
            pn.repl.peers.len() == 1 && pn.repl.peers[0].node_address == n.address && pn.repl.peers[0].proxy_address == n.proxy_address,
            "C06:peer-not-mutual",
            "cluster {}: node {} names peer {} whose own peer record is {:?}",
            cl.name,
            n.address,
            pn.address,
            pn.repl.peers
        );
        ensure!(
            n.is_master() != pn.is_master(),
            "C06:master-replica-pairing",
            "cluster {}: replication pair {} ({}) / {} ({}) is not one master and one replica",
            cl.name,
            n.address,
            n.repl.role,
            pn.address,
            pn.repl.role
        );
    }
    Ok(())
}

#[derive(Default)]
pub struct C06Oracle {
    /// proxies that were failed over while in a cluster and neither replaced nor re-registered
    failed_unreplaced: BTreeSet<String>,
}

impl Oracle for C06Oracle {
    fn init(&mut self, _cfg: &BrokerCfg, v: &Views, _obs: &mut Obs) -> Result<(), Fail> {
        for cl in v.clusters.values() {
            check_structure(cl)?;
        }
        Ok(())
    }

    fn step(&mut self, st: &Step, obs: &mut Obs) -> Result<(), Fail> {
        for cl in st.post.clusters.values() {
            check_structure(cl)?;
        }
        let pre = &st.pre.store;
        let post = &st.post.store;
        // (d) never allocate failed / reported proxies
        let healthy: BTreeSet<&str> = pre.free_healthy().iter().map(|p| p.proxy_address.as_str()).collect();
        for (a, r) in &post.all_proxies {
            if r.cluster.is_some() && pre.all_proxies.get(a).map(|x| x.cluster.is_none()).unwrap_or(true) {
                if pre.failed_proxies.contains(a) || pre.failures.contains_key(a) {
                    fail!(
                        "C06:allocated-failed-proxy",
                        "{:?} allocated proxy {} which was marked failed ({}) or under failure report ({})",
                        st.rop,
                        a,
                        pre.failed_proxies.contains(a),
                        pre.failures.contains_key(a)
                    );
                }
                ensure!(healthy.contains(a.as_str()), "C06:allocated-unknown", "{:?} allocated proxy {} which was not free", st.rop, a);
                if !pre.failed_proxies.is_empty() || !pre.failures.is_empty() {
                    obs.class("allocation-with-failed-proxies-present");
                }
            }
        }
        match st.rop {
            ROp::ReAdd { addr, .. } => {
                self.failed_unreplaced.remove(addr);
            }
            ROp::RemoveCluster { .. } => {
                let in_cluster: BTreeSet<&String> = post.all_proxies.iter().filter(|(_, r)| r.cluster.is_some()).map(|(a, _)| a).collect();
                self.failed_unreplaced.retain(|a| in_cluster.contains(a));
            }
            _ => {}
        }
        // (b') rebalancing must not undo a failover whose failure the broker still records: a proxy with a
        // failed mark or a live failure report that held no master before balance_masters holds none after
        if let (ROp::Balance { name }, Ok(_)) = (st.rop, st.res) {
            if let (Some(pre_cl), Some(post_cl)) = (st.pre.clusters.get(name), st.post.clusters.get(name)) {
                let members: BTreeSet<&String> = post_cl.nodes.iter().map(|n| &n.proxy_address).collect();
                for a in members {
                    if !(pre.failed_proxies.contains(a) || pre.failures.contains_key(a)) {
                        continue;
                    }
                    let had = pre_cl.nodes.iter().any(|n| n.proxy_address == *a && n.is_master());
                    let has = post_cl.nodes.iter().find(|n| n.proxy_address == *a && n.is_master());
                    if let (false, Some(n)) = (had, has) {
                        fail!(
                            "C06:balance-made-failed-proxy-master",
                            "balance_masters({}) made node {} of proxy {} master although the broker records its failure (failed mark: {}, live report: {}) and it held no master before",
                            name,
                            n.address,
                            a,
                            pre.failed_proxies.contains(a),
                            pre.failures.contains_key(a)
                        );
                    }
                    obs.class("balance-with-recorded-failure-in-cluster");
                }
            }
        }
        let ROp::Failover { addr } = st.rop else { return Ok(()) };
        let Some((pc, ci, part)) = pre.find_chunk(addr) else {
            obs.class("failover:free-or-unknown-proxy");
            // nothing may change for any cluster
            ensure!(
                st.pre.clusters == st.post.clusters,
                "C06:free-failover-changed-cluster",
                "failover of {} (not in a cluster) changed a cluster view",
                addr
            );
            return Ok(());
        };
        if matches!(st.res, Err(c) if c == "PROXY_NOT_FOUND") {
            return Ok(());
        }
        let cname = pc.name.clone();
        let chunk = &pc.chunks[ci];
        let partner = chunk.proxy_addresses[1 - part].clone();
        let partner_healthy = !pre.failed_proxies.contains(&partner)
            && !pre.failures.contains_key(&partner)
            && !self.failed_unreplaced.contains(&partner);
        let pre_cl = &st.pre.clusters[&cname];
        let Some(post_cl) = st.post.clusters.get(&cname) else {
            fail!("C06:cluster-vanished", "cluster {} vanished through a failover", cname)
        };
        let replaced = post.clusters[&cname].chunks[ci].proxy_addresses[part] != *addr;
        if replaced {
            self.failed_unreplaced.remove(addr);
            obs.class("failover:replaced");
        } else {
            self.failed_unreplaced.insert(addr.clone());
            obs.class("failover:no-replacement");
        }
        if !partner_healthy {
            obs.class("failover:partner-unhealthy(skipped-strict-clause)");
            return Ok(());
        }
        obs.nontrivial = true;
        let had_masters = pre_cl.nodes.iter().any(|n| n.proxy_address == *addr && n.is_master());
        obs.class(if had_masters { "failover:in-cluster-with-masters" } else { "failover:repeated-or-replica-only" });
        if chunk.role_position != "Normal" {
            obs.class("failover:chunk-already-non-normal");
        }
        if st.cfg.ordered {
            obs.class("failover:ordered-mode");
        }

        // (a) ownership transfer
        let moved_to: BTreeMap<String, String> = pre_cl
            .nodes
            .iter()
            .filter(|n| n.proxy_address == *addr && n.is_master())
            .map(|n| (n.address.clone(), n.repl.peers[0].node_address.clone()))
            .collect();
        let expected: BTreeSet<Triple> = triples(pre_cl)
            .into_iter()
            .map(|(owner, r, k)| match moved_to.get(&owner) {
                Some(to) => (to.clone(), r, k),
                None => (owner, r, k),
            })
            .collect();
        let got = triples(post_cl);
        if expected != got {
            let missing: Vec<_> = expected.difference(&got).collect();
            let extra: Vec<_> = got.difference(&expected).collect();
            fail!(
                "C06:ownership-changed",
                "failover of {} (partner {} healthy) in cluster {}: slot ownership is not 'masters of the failed proxy -> their replicas, everything else unchanged'\n  expected but missing: {:?}\n  unexpected: {:?}",
                addr,
                partner,
                cname,
                missing,
                extra
            );
        }
        // promoted nodes are on the partner proxy and are masters now
        for to in moved_to.values() {
            let n = post_cl.nodes.iter().find(|n| n.address == *to);
            match n {
                Some(n) => ensure!(
                    n.is_master() && n.proxy_address == partner,
                    "C06:promoted-node-wrong",
                    "after failover of {}, node {} should be master on {} but is {} on {}",
                    addr,
                    to,
                    partner,
                    n.repl.role,
                    n.proxy_address
                ),
                None => fail!("C06:promoted-node-missing", "promoted node {} not in cluster after failover", to),
            }
        }
        // (b) no node of the failed, unreplaced proxy is master
        for n in &post_cl.nodes {
            if n.proxy_address == *addr {
                ensure!(
                    !n.is_master(),
                    "C06:failed-proxy-still-master",
                    "after failover of {} its node {} is still master",
                    addr,
                    n.address
                );
            }
        }
        // (c) migrations whose addresses changed are re-issued with a newer epoch
        let before = migrations(pre_cl);
        let after = migrations(post_cl);
        for (ranges, m0) in &before {
            let Some(m1) = after.get(ranges) else {
                fail!("C06:migration-lost", "failover of {} dropped migration {:?}", addr, ranges)
            };
            let addresses_changed = m0.src_node_address != m1.src_node_address
                || m0.src_proxy_address != m1.src_proxy_address
                || m0.dst_node_address != m1.dst_node_address
                || m0.dst_proxy_address != m1.dst_proxy_address;
            if addresses_changed {
                obs.class("failover:migration-addresses-changed");
                let which = if m0.src_proxy_address == *addr { "src-side" } else if m0.dst_proxy_address == *addr { "dst-side" } else { "other" };
                obs.class(format!("failover:during-migration:{}", which));
                ensure!(
                    m1.epoch > m0.epoch,
                    "C06:migration-not-reissued",
                    "failover of {} changed the addresses of migration {:?} ({:?} -> {:?}) but kept its migration epoch {} (chunk position before: {})",
                    addr,
                    ranges,
                    m0,
                    m1,
                    m0.epoch,
                    chunk.role_position
                );
            } else {
                ensure!(
                    m1.epoch >= m0.epoch,
                    "C06:migration-epoch-regressed",
                    "failover of {} lowered the epoch of migration {:?}",
                    addr,
                    ranges
                );
                if !had_masters {
                    // repeated failover of an already taken-over proxy must not reset tasks
                    ensure!(
                        m1.epoch == m0.epoch,
                        "C06:repeated-failover-reset-migration",
                        "repeated failover of {} (no masters left on it) re-issued migration {:?}: epoch {} -> {}",
                        addr,
                        ranges,
                        m0.epoch,
                        m1.epoch
                    );
                }
            }
            // new addresses must not name the failed proxy as an endpoint
            ensure!(
                m1.src_proxy_address != *addr && m1.dst_proxy_address != *addr,
                "C06:migration-names-failed-proxy",
                "after failover of {} migration {:?} still names it: {:?}",
                addr,
                ranges,
                m1
            );
        }
        Ok(())
    }
}

pub fn check_case(case: &Case, obs: &mut Obs) -> Result<(), Fail> {
    run_history(case, &mut C06Oracle::default(), obs)
}

/// histories that drive failovers into every phase: plenty of spare proxies or none
pub fn failover_strategy() -> impl proptest::strategy::Strategy<Value = Case> {
    use proptest::prelude::*;
    (case_strategy(12), any::<bool>(), prop::collection::vec((any::<u16>(), any::<u16>()), 0..6)).prop_map(|(mut c, spare, extra)| {
        if !spare {
            // exactly enough proxies for the initial cluster: replacements are impossible
            c.cfg.hosts = vec![2, 2];
        }
        // sprinkle additional failovers through the history
        for (pos, p) in extra {
            let at = if c.ops.is_empty() { 0 } else { crate::fw::pick(pos, c.ops.len() + 1) };
            c.ops.insert(at, Op::Failover { p: p % 49152 });
        }
        c
    })
}

pub const RULE: &str = "generated broker histories in which a failover of an arbitrary registered proxy is drawn at every point (before/during/after migrations, after earlier failovers, balance and replacements, repeated calls, with spare proxies or none, ordered mode); oracle: (a) exact ownership transfer computed from the pre-state's replica peers, (b) no master left on the failed proxy and master/replica pairing with mutual peers in every state, (c) every migration whose addresses changed carries a strictly larger migration epoch, repeated failover does not re-issue, (d) allocations only from the free healthy pool; strict clauses only when the chunk partner is healthy; non-trivial = failover of an in-cluster proxy with healthy partner; distinct = hash of the generated case";

pub fn run(ctx: &Ctx, findings: &Findings) -> PropReport {
    let mut subs = vec![];
    if let Some(path) = &ctx.replay {
        let v: serde_json::Value = serde_json::from_str(&std::fs::read_to_string(path).expect("replay file")).expect("json");
        for name in ["failover", "history", "enumerated"] {
            if let Some(r) = replay_case::<Case>(ctx, findings, name, &v, &check_case) {
                subs.push(r);
            }
        }
    } else {
        let n = ctx.cases(30000, 600000);
        subs.push(drive(ctx, findings, "failover", RULE, n, failover_strategy, &check_case));
        subs.push(drive(ctx, findings, "history", RULE, n / 2, || case_strategy(ctx.tier.pick(14, 22)), &check_case));
        subs.push(drive_enum(ctx, findings, "enumerated", crate::engines::brokersim::RULE_ENUM, crate::engines::brokersim::enumerated_cases(ctx.tier.pick(3, 4)), true, &check_case));
    }
    PropReport {
        level: "exploration",
        subs,
        assumptions: vec![
            "a migration whose four addresses did not change through the failover may keep its epoch (the code deliberately does not reset such tasks)".into(),
            "'failed and unreplaced' is tracked by the harness (ordered mode keeps no failed_proxies entry)".into(),
        ],
        extra: Default::default(),
    }
}
