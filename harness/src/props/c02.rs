//! C02 - synced proxies route every key to the broker-designated master.
//! (The same frozen-phase worlds also feed C14's reachable-state sub-check.)
use crate::engines::brokersim::{self, Sim, VCluster, VTag, Views};
use crate::engines::world::*;
use crate::fw::*;
use crate::props::c09::slot_keys;
use crate::props::c14;
use crate::{ensure, fail};
use proptest::prelude::*;
use serde::{Deserialize, Serialize};
use std::collections::{BTreeMap, BTreeSet};
use std::sync::Arc;
use std::time::Duration;
use undermoon::protocol::{Array, BulkStr, Resp};

#[derive(Debug, Clone, Serialize, Deserialize)]
pub struct PhaseCase {
    pub base: brokersim::Case,
    pub compress: bool,
    /// 0 = (PreCheck,PreCheck), 1 = (Scanning,PreSwitch), 2 = (FinalSwitch,PreSwitch), 3 = (SwitchCommitted,SwitchCommitted)
    pub phase: u8,
    pub probes: Vec<u16>,
    pub backend_conn_num: u8,
    pub nodes_v2: bool,
    pub active_redirection: bool,
    /// number of metadata refreshes delivered AFTER the phase was reached: the admin API bumps all
    /// epochs (PUT /epoch), the unchanged content is re-sent with the higher epoch while the migration
    /// is in flight (what any unrelated change of the cluster causes in production)
    #[serde(default)]
    pub refresh: u8,
}

pub fn strategy(max_probes: usize) -> impl Strategy<Value = PhaseCase> {
    (
        brokersim::case_strategy(8),
        any::<bool>(),
        0u8..4,
        prop::collection::vec(0u16..16384, 8..max_probes.max(9)),
        1u8..=3,
        any::<bool>(),
        prop::bool::weighted(0.25),
        prop_oneof![3 => Just(0u8), 2 => Just(1u8), 1 => Just(2u8)],
    )
        .prop_map(|(mut base, compress, phase, probes, backend_conn_num, nodes_v2, active_redirection, refresh)| {
            // states with a migration are the interesting ones: bias the history towards them
            if base.ops.len() > 2 && !base.ops.iter().any(|o| matches!(o, brokersim::Op::Migrate { .. } | brokersim::Op::ScaleDownSmart { .. } | brokersim::Op::ScaleDown { .. })) {
                base.ops.push(brokersim::Op::AddNodesSmart { c: 0, k: 1 });
                base.ops.push(brokersim::Op::Migrate { c: 0 });
            }
            base.cfg.ordered = false;
            // the time limits of the migration (max_blocking_time, max_migration_time) select the
            // deliberate time-out fallbacks, which are fault paths outside this property; extreme
            // values additionally trip debug assertions inside tokio's timer. Keep them at their
            // defaults: config changes in these worlds touch compression and scan parameters only.
            for op in base.ops.iter_mut() {
                if let brokersim::Op::Config { k, v, .. } = op {
                    if *k == 1 || *k == 2 {
                        *k = 4;
                    }
                    if *k != 0 && (*v == 0 || *v >= 3) {
                        *v = 1 + *v % 2;
                    }
                }
            }
            PhaseCase { base, compress, phase, probes, backend_conn_num, nodes_v2, active_redirection, refresh }
        })
}

#[derive(Clone, Copy, PartialEq)]
pub enum Which {
    Routing,
    Topology,
}

/// per slot: (owner node, owner proxy, Some((src proxy, dst proxy)) if migrating)
struct Owners {
    node: Vec<String>,
    proxy: Vec<String>,
    mig: Vec<Option<(String, String, String, String)>>, // (src proxy, src node, dst proxy, dst node)
}

fn owners_of(cl: &VCluster, phase: u8) -> Result<Owners, Fail> {
    let mut node = vec![String::new(); 16384];
    let mut proxy = vec![String::new(); 16384];
    let mut mig = vec![None; 16384];
    // the node that HOLDS the importing twin of a migrating range is the designated destination (the
    // addresses inside the migration meta are what the proxies are told, not what designates the owner)
    let mut importing_holder: BTreeMap<(Vec<(usize, usize)>, u64), (String, String)> = BTreeMap::new();
    for n in &cl.nodes {
        for sr in &n.slots {
            if let VTag::Importing(m) = &sr.tag {
                importing_holder.insert((sr.range_list.clone(), m.epoch), (n.address.clone(), n.proxy_address.clone()));
            }
        }
    }
    for n in &cl.nodes {
        if !n.is_master() {
            continue;
        }
        for sr in &n.slots {
            match &sr.tag {
                VTag::Importing(_) => continue,
                VTag::None => {
                    for (a, b) in &sr.range_list {
                        for s in *a..=*b {
                            node[s] = n.address.clone();
                            proxy[s] = n.proxy_address.clone();
                        }
                    }
                }
                VTag::Migrating(m) => {
                    let (dst_node, dst_proxy) = importing_holder.get(&(sr.range_list.clone(), m.epoch)).cloned().unwrap_or((m.dst_node_address.clone(), m.dst_proxy_address.clone()));
                    for (a, b) in &sr.range_list {
                        for s in *a..=*b {
                            if phase == 0 {
                                // before the handshake: the node that holds the migrating range
                                node[s] = n.address.clone();
                                proxy[s] = n.proxy_address.clone();
                            } else {
                                node[s] = dst_node.clone();
                                proxy[s] = dst_proxy.clone();
                            }
                            mig[s] = Some((n.proxy_address.clone(), n.address.clone(), dst_proxy.clone(), dst_node.clone()));
                        }
                    }
                }
            }
        }
    }
    if let Some(s) = node.iter().position(|n| n.is_empty()) {
        fail!("harness:view", "slot {} has no owner in the broker view (C01's subject)", s);
    }
    Ok(Owners { node, proxy, mig })
}

/// the broker part (its own runtime): final views and the typed per-proxy metadata
type Typed = BTreeMap<String, undermoon::common::cluster::Proxy>;

fn prepare(case: &PhaseCase) -> (Views, Typed, Vec<Typed>) {
    let mut sim = Sim::new(&case.base.cfg);
    let mut pre = sim.views();
    for op in &case.base.ops {
        if matches!(op, brokersim::Op::AutoScale { .. } | brokersim::Op::AutoScaleSmart { .. }) {
            continue;
        }
        let rop = sim.resolve(op, &pre);
        let _ = sim.apply(&rop);
        pre = sim.views();
    }
    // a history that ends without a cluster (never created, refused for lack of proxies, removed) says
    // nothing about routing: continue it with registrations, a creation and a scale-out
    if !pre.clusters.contains_key("c0") {
        let tail = [
            brokersim::Op::AddProxy { host: 0 },
            brokersim::Op::AddProxy { host: 1 },
            brokersim::Op::AddProxy { host: 0 },
            brokersim::Op::AddProxy { host: 1 },
            brokersim::Op::AddCluster { c: 0, nodes: 4 },
            brokersim::Op::AddNodesSmart { c: 0, k: 0 },
            brokersim::Op::Migrate { c: 0 },
        ];
        for op in &tail {
            let rop = sim.resolve(op, &pre);
            let _ = sim.apply(&rop);
            pre = sim.views();
        }
    }
    let mut typed = BTreeMap::new();
    for a in pre.proxies.keys() {
        if let Ok(Some(p)) = sim.rt.block_on(sim.svc.get_proxy_by_address(a)) {
            typed.insert(a.clone(), p);
        }
    }
    // the refreshed views: same content, higher epochs
    let mut refreshed = vec![];
    for _ in 0..case.refresh {
        let e = sim.rt.block_on(sim.svc.get_epoch()).unwrap_or(0);
        if sim.rt.block_on(sim.svc.force_bump_all_epoch(e + 1)).is_err() {
            break;
        }
        let mut t = BTreeMap::new();
        for a in pre.proxies.keys() {
            if let Ok(Some(p)) = sim.rt.block_on(sim.svc.get_proxy_by_address(a)) {
                t.insert(a.clone(), p);
            }
        }
        refreshed.push(t);
    }
    (pre, typed, refreshed)
}

async fn run(case: &PhaseCase, which: Which, v: Views, typed: Typed, refreshed: Vec<Typed>, obs: &mut Obs) -> Result<(), Fail> {
    use undermoon::coordinator::verif_export::{ProxyMetaRespSender, ProxyMetaSender};
    let Some(cl) = v.clusters.get("c0") else {
        obs.class("state:no-cluster(trivial)");
        return Ok(());
    };
    let members: Vec<String> = v.store.clusters["c0"].chunks.iter().flat_map(|c| c.proxy_addresses.iter().cloned()).collect();
    let owners = owners_of(cl, case.phase)?;
    let n_mig = cl.nodes.iter().flat_map(|n| n.slots.iter()).filter(|s| matches!(s.tag, VTag::Migrating(_))).count();
    if n_mig > 0 {
        obs.class(format!("state:migrating:phase{}", case.phase));
    } else {
        obs.class("state:stable");
    }
    if v.store.clusters["c0"].chunks.iter().any(|c| c.role_position != "Normal") {
        obs.class("state:after-failover");
    }
    if case.compress {
        obs.class("encoding:compressed");
    }

    // 2. the world: every proxy of the cluster with its two Redis nodes
    let world = World::new();
    let opts = ProxyOpts { backend_conn_num: case.backend_conn_num as usize, nodes_v2: case.nodes_v2, active_redirection: case.active_redirection, ..ProxyOpts::default() };
    let mut standins: BTreeMap<String, Arc<Standin>> = BTreeMap::new();
    for (i, p) in members.iter().enumerate() {
        world.net.add_proxy(p, &opts);
        let res = &v.store.all_proxies[p];
        for n in &res.node_addresses {
            standins.insert(n.clone(), world.net.add_redis(n, i as u64));
        }
    }
    // 3. freeze the requested phase, then sync through the REAL coordinator sender
    match case.phase {
        0 => world.net.gate.hold("UMCTL:PRECHECK"),
        1 => world.net.gate.hold("SCAN"),
        2 => world.net.gate.hold("UMCTL:FINALSWITCH"),
        _ => {}
    }
    let sender = ProxyMetaRespSender::new(world.net.clone(), case.compress);
    for p in &members {
        let proxy = typed[p].clone();
        sender.send_meta(proxy).await.map_err(|e| Fail::new("C02:sync-failed", format!("coordinator could not sync {}: {:?}", p, e)))?;
    }
    // let the migrations run into the held message (virtual time)
    tokio::time::sleep(Duration::from_millis(300)).await;
    // metadata refreshes while the migration is in flight: same content, higher epoch
    for (i, t) in refreshed.iter().enumerate() {
        let k = (i + 1) % members.len().max(1);
        for p in members[k..].iter().chain(members[..k].iter()) {
            if let Some(proxy) = t.get(p) {
                sender.send_meta(proxy.clone()).await.map_err(|e| Fail::new("C02:sync-failed", format!("coordinator could not re-sync {}: {:?}", p, e)))?;
            }
        }
        tokio::time::sleep(Duration::from_millis(50)).await;
        obs.class(format!("refresh-during-phase{}{}", case.phase, if n_mig > 0 { ":migrating" } else { "" }));
    }
    let current = refreshed.last().unwrap_or(&typed);
    for p in &members {
        let r = world.once(p, &cmd(&["UMCTL", "GETEPOCH"])).await;
        let want = current.get(p).map(|x| x.get_epoch()).unwrap_or(v.proxies[p].epoch);
        ensure!(
            matches!(&r, Resp::Integer(i) if i == want.to_string().as_bytes()),
            "C02:proxy-did-not-apply-view",
            "proxy {} reports epoch {} after the sync, the broker's view has {}",
            p,
            show_resp(&r),
            want
        );
    }
    if n_mig > 0 && case.phase == 3 {
        // every migration must have reached the final state on both sides
        let mut finished = 0;
        for p in &members {
            if let Resp::Arr(Array::Arr(a)) = world.once(p, &cmd(&["UMCTL", "INFOMGR"])).await {
                finished += a.len();
            }
        }
        ensure!(
            finished == 2 * n_mig,
            "C02:migration-did-not-finish",
            "{} migrations are served but only {} finished task reports (expected {}) appear after the handshake ran freely",
            n_mig,
            finished,
            2 * n_mig
        );
    }

    // probes: boundaries +-1 and generated slots
    let mut probes: BTreeSet<usize> = case.probes.iter().map(|s| *s as usize).collect();
    for n in &cl.nodes {
        for sr in &n.slots {
            for (a, b) in &sr.range_list {
                for d in [-1i64, 0, 1] {
                    for x in [*a as i64 + d, *b as i64 + d] {
                        if (0..16384).contains(&x) {
                            probes.insert(x as usize);
                        }
                    }
                }
            }
        }
    }

    if which == Which::Routing {
        if members.len() >= 2 {
            obs.class("cluster:>=2-proxies");
        }
        let mut token = 0u64;
        for start in &members {
            for slot in &probes {
                let key = &slot_keys()[*slot];
                token += 1;
                let tok = format!("tok{}", token).into_bytes();
                let before: BTreeMap<String, usize> = standins.iter().map(|(a, s)| (a.clone(), s.log.lock().len())).collect();
                let (reply, path) = tokio::time::timeout(Duration::from_secs(30), follow_moved(&world, start, &cmdb(&[b"SET", key, &tok]), 6))
                    .await
                    .map_err(|_| Fail::new("C02:probe-hangs", format!("SET for slot {} via {} did not complete within 30 virtual seconds (phase {})", slot, start, case.phase)))?;
                let migrating = owners.mig[*slot].is_some();
                if start != &owners.proxy[*slot] || migrating {
                    obs.nontrivial = true;
                }
                // where was it executed?
                let mut executed_on = vec![];
                for (addr, s) in &standins {
                    // (the value may be compressed by the proxy: identify the command by key and position)
                    if s.log.lock()[before[addr]..].iter().any(|e| upper(&e.cmd[0]) == "SET" && e.cmd.get(1) == Some(key)) {
                        executed_on.push(addr.clone());
                    }
                }
                ensure!(
                    matches!(&reply, Resp::Simple(s) if s == b"OK"),
                    "C02:command-not-served",
                    "SET for slot {} (owner {} on {}, migrating: {}, phase {}) starting at {}: path {:?}, final reply {}",
                    slot,
                    owners.node[*slot],
                    owners.proxy[*slot],
                    migrating,
                    case.phase,
                    start,
                    path,
                    show_resp(&reply)
                );
                ensure!(
                    executed_on == vec![owners.node[*slot].clone()],
                    "C02:executed-on-wrong-node",
                    "SET for slot {} starting at {} (path {:?}) was executed on {:?}; the broker designates {} (proxy {}), migrating: {:?}, phase {}",
                    slot,
                    start,
                    path,
                    executed_on,
                    owners.node[*slot],
                    owners.proxy[*slot],
                    owners.mig[*slot],
                    case.phase
                );
                let hops = path.len() - 1;
                let max = if migrating { 3 } else { 1 };
                ensure!(
                    hops <= max,
                    "C02:too-many-redirections",
                    "SET for slot {} starting at {} needed {} redirections (path {:?}); at most {} are allowed for a {} slot",
                    slot,
                    start,
                    hops,
                    path,
                    max,
                    if migrating { "migrating" } else { "stable" }
                );
                if hops >= 2 {
                    obs.class("routing:>=2-hops");
                }
            }
        }
        // no data command on a node that is neither owner nor migration endpoint
        for (addr, s) in &standins {
            for e in s.log.lock().iter() {
                let name = upper(&e.cmd[0]);
                if name != "SET" && name != "GET" {
                    continue;
                }
                let slot = crate::props::c09::ref_slot(&e.cmd[1]);
                let allowed = match &owners.mig[slot] {
                    Some((_, sn, _, dn)) => addr == sn || addr == dn,
                    None => *addr == owners.node[slot],
                };
                ensure!(allowed, "C02:data-command-on-foreign-node", "data command [{}] (slot {}) was executed on {}, owner is {}", show_cmd(&e.cmd), slot, addr, owners.node[slot]);
            }
        }
    } else {
        // C14: advertised topology on every proxy of the cluster. A case frozen before the handshake is
        // afterwards ADVANCED in the same world (release PRECHECK, hold SCAN) and queried again: the
        // advertised topology has to follow the handshake between two queries within one epoch
        let advance = case.phase == 0 && n_mig > 0 && case.probes.first().map(|x| x % 2 == 0).unwrap_or(false);
        let passes: Vec<u8> = if advance { vec![0, 1] } else { vec![case.phase] };
        for (pass_no, phase_now) in passes.into_iter().enumerate() {
        if pass_no == 1 {
            world.net.gate.hold("SCAN");
            world.net.gate.release("UMCTL:PRECHECK");
            tokio::time::sleep(Duration::from_millis(300)).await;
            obs.class("topology:queried-again-after-the-handshake-advanced");
        }
        for p in &members {
            let nodes = match world.once(p, &cmd(&["CLUSTER", "NODES"])).await {
                Resp::Bulk(BulkStr::Str(s)) => String::from_utf8_lossy(&s).to_string(),
                other => fail!("C14:nodes-format", "CLUSTER NODES on {} replied {}", p, show_resp(&other)),
            };
            let slots = world.once(p, &cmd(&["CLUSTER", "SLOTS"])).await;
            let t = c14::parse_topology(&nodes, &slots, case.nodes_v2)?;
            let expected = |s: usize| -> Vec<String> {
                match &owners.mig[s] {
                    None => vec![owners.proxy[s].clone()],
                    Some((sp, _, dp, _)) => {
                        if p == sp || p == dp {
                            // a proxy that runs the migration knows its phase
                            vec![if phase_now == 0 { sp.clone() } else { dp.clone() }]
                        } else {
                            vec![sp.clone(), dp.clone()]
                        }
                    }
                }
            };
            let role = if owners.mig.iter().flatten().any(|(sp, _, _, _)| sp == p) {
                "source"
            } else if owners.mig.iter().flatten().any(|(_, _, dp, _)| dp == p) {
                "destination"
            } else if n_mig > 0 {
                "bystander"
            } else {
                "stable"
            };
            obs.class(format!("topology-on:{}:phase{}", role, phase_now));
            if n_mig > 0 {
                obs.nontrivial = true;
            }
            c14::check_topology(&t, p, &expected, &format!("proxy {} ({}, phase {}{})", p, role, phase_now, if pass_no == 1 { ", second query in the same world after the handshake advanced" } else { "" }))?;
        }
        }
    }
    Ok(())
}

pub fn check_routing(case: &PhaseCase, obs: &mut Obs) -> Result<(), Fail> {
    let (v, typed, refreshed) = prepare(case);
    let rt = world_runtime();
    let r = rt.block_on(run(case, Which::Routing, v, typed, refreshed, obs));
    drop(rt);
    r
}

pub fn check_topology(case: &PhaseCase, obs: &mut Obs) -> Result<(), Fail> {
    let (v, typed, refreshed) = prepare(case);
    let rt = world_runtime();
    let r = rt.block_on(run(case, Which::Topology, v, typed, refreshed, obs));
    drop(rt);
    r
}

pub const RULE: &str = "broker states reached by generated operation histories (stable, mid-migration, after failover/replacement, limited migration) are delivered to a world of REAL proxies (one per cluster member, two Redis stand-ins each) through the REAL coordinator sender (SETREPL + SETCLUSTER, plain or compressed); the real migrations are frozen in a generated phase pair by holding PRECHECK / SCAN / FINALSWITCH messages; in half of the cases the metadata is then refreshed 1-2 times while the migration is in flight (admin epoch bump, same content re-sent with a higher epoch through the real sender); from EVERY proxy of the cluster a SET with a unique token is sent for every range boundary +-1 and generated slots, MOVED followed; oracle from the broker's cluster JSON: executed (stand-in logs) on exactly the designated node - the node HOLDING the migrating range in (PreCheck,PreCheck), the node HOLDING its importing twin afterwards (not the addresses written inside the migration meta) -, <=1 redirection for stable and <=3 for migrating slots, no data command on a foreign node; non-trivial = >=2 proxies and (start proxy != owner proxy or slot migrating); distinct = hash of the case";
pub const RULE_TOPO: &str = "[phases] the same frozen-phase worlds built from reachable broker states: CLUSTER NODES and CLUSTER SLOTS of EVERY proxy (source, destination, bystander) parsed independently; every slot exactly once in each and at the same address; stable slots at the owner proxy, migrating slots at the source in (PreCheck,PreCheck) and at the destination afterwards on the proxies that run the migration, once at either side on bystanders; half of the cases frozen before the handshake are then advanced in the same world (PRECHECK released, SCAN held) and queried a second time; non-trivial = the state has a migration";

pub fn run_prop(ctx: &Ctx, findings: &Findings) -> PropReport {
    let mut subs = vec![];
    if let Some(path) = &ctx.replay {
        let v: serde_json::Value = serde_json::from_str(&std::fs::read_to_string(path).expect("replay file")).expect("json");
        if let Some(r) = replay_case::<PhaseCase>(ctx, findings, "routing", &v, &check_routing) {
            subs.push(r);
        }
    } else {
        let _ = slot_keys();
        // a failing world costs ~50 ms per shrink step: bound the search so that a violation is reported
        // within the quick budget
        MAX_SHRINK_ITERS.store(300, std::sync::atomic::Ordering::Relaxed);
        let probes = ctx.tier.pick(24, 128);
        subs.push(drive(ctx, findings, "routing", RULE, ctx.cases(1500, 30000), move || strategy(probes), &check_routing));
    }
    PropReport {
        level: "exploration",
        subs,
        assumptions: vec![
            "every proxy of the cluster is alive and has applied the broker's current view (the property's precondition), including proxies that were failed over but not replaced".into(),
            "the blocked interval between PRESWITCH being sent and answered is not probed (commands are queued there by design)".into(),
            "slots are probed at every range boundary +-1 plus generated slots, not all 16384 per state".into(),
        ],
        extra: Default::default(),
    }
}

pub fn run_phases_for_c14(ctx: &Ctx, findings: &Findings) -> SubReport {
    MAX_SHRINK_ITERS.store(300, std::sync::atomic::Ordering::Relaxed);
    drive(ctx, findings, "phases", RULE_TOPO, ctx.cases(1500, 30000), || strategy(9), &check_topology)
}

pub fn replay_phases(ctx: &Ctx, findings: &Findings, v: &serde_json::Value) -> Option<SubReport> {
    replay_case::<PhaseCase>(ctx, findings, "phases", v, &check_topology)
}
