use umverif::fw::*;
use umverif::{alloc, props};

#[global_allocator]
static GLOBAL: alloc::CountingAlloc = alloc::CountingAlloc;



use std::path::PathBuf;
use std::time::Instant;

fn usage() -> ! {
    eprintln!("usage: umverif <Cxx> [--tier quick|thorough] [--replay FILE] [--seed N]");
    std::process::exit(2)
}

fn main() {
    // glibc malloc: keep large buffers on the heap (mmap/munmap churn from 16 worker
    // threads costs far more than the checks themselves)
    unsafe {
        libc::mallopt(libc::M_MMAP_THRESHOLD, 1 << 30);
        libc::mallopt(libc::M_TRIM_THRESHOLD, 1 << 30);
    }
    let args: Vec<String> = std::env::args().collect();
    if args.len() < 2 {
        usage();
    }
    let prop = args[1].clone();
    let mut tier = match std::env::var("VERIF_TIER").ok().as_deref() {
        Some("thorough") => Tier::Thorough,
        _ => Tier::Quick,
    };
    let mut seed: u64 = std::env::var("VERIF_SEED")
        .ok()
        .and_then(|s| s.trim().parse::<i128>().ok())
        .map(|v| v as u64)
        .unwrap_or(20260923);
    let mut replay = None;
    let mut i = 2;
    while i < args.len() {
        match args[i].as_str() {
            "--tier" => {
                i += 1;
                tier = match args.get(i).map(|s| s.as_str()) {
                    Some("quick") => Tier::Quick,
                    Some("thorough") => Tier::Thorough,
                    _ => usage(),
                };
            }
            "--replay" => {
                i += 1;
                replay = Some(PathBuf::from(args.get(i).cloned().unwrap_or_else(|| usage())));
            }
            "--seed" => {
                i += 1;
                seed = args.get(i).and_then(|s| s.parse().ok()).unwrap_or_else(|| usage());
            }
            _ => usage(),
        }
        i += 1;
    }
    let verif_dir = PathBuf::from(std::env::var("VERIF_DIR").unwrap_or_else(|_| "/verif".into()));
    let workers = std::env::var("VERIF_WORKERS")
        .ok()
        .and_then(|s| s.parse().ok())
        .unwrap_or_else(|| std::thread::available_parallelism().map(|n| n.get()).unwrap_or(4));
    let scale = std::env::var("VERIF_SCALE").ok().and_then(|s| s.parse().ok()).unwrap_or(1.0);
    let ctx = Ctx { prop: prop.clone(), tier, seed, replay, verif_dir, workers, started: Instant::now(), scale };
    install_panic_hook();
    let findings = Findings::load(&ctx.verif_dir);
    set_known_signatures(&findings, &ctx.prop);
    let report = match props::dispatch(&ctx, &findings) {
        Some(r) => r,
        None => {
            eprintln!("unknown property {}", prop);
            std::process::exit(2);
        }
    };
    let code = finish(&ctx, &findings, report);
    std::process::exit(code);
}
